// C20 (value part): nostd::string_view, span, function_ref and variant against std::string_view, an
// index-checked slice model, direct calls and std::variant (Engine B, lock-step differential).
#include <array>
#include <cmath>
#include <functional>
#include <memory>
#include <sstream>
#include <stdexcept>
#include <string>
#include <string_view>
#include <variant>
#include <vector>

#include <fcntl.h>
#include <sys/wait.h>
#include <unistd.h>

#include <opentelemetry/nostd/function_ref.h>
#include <opentelemetry/nostd/span.h>
#include <opentelemetry/nostd/string_view.h>
#include <opentelemetry/nostd/utility.h>
#include <opentelemetry/nostd/variant.h>

#include "seq/vf_seq.h"

namespace nostd = opentelemetry::nostd;

namespace {

int sgn(int v) { return v < 0 ? -1 : v > 0 ? 1 : 0; }
const size_t NPOS = static_cast<size_t>(-1);

// ==================================================================================================
// string_view
// ==================================================================================================
std::vector<std::string> g_strs;  // all strings over {a, b, NUL, 0xff} up to the tier's length

// exact-size heap block holding s followed by one NUL (C-string operands)
struct CStr {
  char *p;
  explicit CStr(const std::string &s) : p(static_cast<char *>(malloc(s.size() + 1))) { memcpy(p, s.data(), s.size()); p[s.size()] = 0; }
  ~CStr() { free(p); }
  CStr(const CStr &) = delete;
};

std::vector<size_t> positions(size_t size, bool thorough) {
  std::vector<size_t> v;
  for (size_t i = 0; i <= size + 1; ++i) v.push_back(i);
  v.push_back(NPOS);
  if (thorough) v.push_back(NPOS - 1);
  return v;
}
std::string pos_str(size_t p) { return p == NPOS ? "npos" : p == NPOS - 1 ? "npos-1" : vf::sfmt("%zu", p); }

// result of an operation that may throw std::out_of_range: "!" or the value
template <class F> std::string guarded(F f) {
  try {
    return f();
  } catch (const std::out_of_range &) {
    return "!out_of_range";
  }
}
std::string q(const std::string &s) { return "'" + vfq::printable(s) + "'"; }

void run_string_view(vf::Ctx &c) {
  const bool th = c.thorough();
  int group = c.pick("sv-group", 7);
  // operand index g_strs.size() is the default-constructed view (null data, size 0) on BOTH sides: it then is an operand of
  // every operation of every group (compare / == / < / find / substr / hash / << / conversion to std::string)
  static const std::string kNone;
  const int nstrs = (int)g_strs.size();
  const int si = c.pick("s", nstrs + 1);
  const bool s_null = si == nstrs;
  const std::string &s = s_null ? kNone : g_strs[si];
  const bool binary = group == 1 || group == 2 || group == 3 || group == 6;
  const int ti = binary ? c.pick("t", nstrs + 1) : si;
  const bool t_null = ti == nstrs;
  const std::string &t = t_null ? kNone : g_strs[ti];
  vfq::HeapStr hs(s), ht(t);  // exact-size blocks without NUL: an over-read is an ASan report
  CStr ct(t);
  const std::string stt(t);
  const nostd::string_view ns = s_null ? nostd::string_view() : hs.view(), nt = t_null ? nostd::string_view() : ht.view();
  const std::string_view ss = s_null ? std::string_view() : std::string_view(ns.data(), ns.size()), st = t_null ? std::string_view() : std::string_view(nt.data(), nt.size());
  const std::string qs = s_null ? std::string("<default-constructed view>") : q(s), qt = t_null ? std::string("<default-constructed view>") : q(t);
  if (s_null || t_null) c.counted("string_view_null_operand");
  std::string out;  // results, for the outcome / state counters
  uint64_t n = 0;
  // SAME(got, want, sig, what): `what` (a std::string expression) is only evaluated when the results differ
  vf::H128 outh;
  auto same_impl = [&](const std::string &got, const std::string &want) {
    ++n;
    outh.add_str(got);
    if (out.size() < 200) out += got + ";";
    return got == want;
  };
#define SAME(GOT, WANT, SIG, WHAT)                                                                   \
  do {                                                                                               \
    std::string got_ = (GOT), want_ = (WANT);                                                        \
    if (!same_impl(got_, want_)) c.fail((SIG), std::string(WHAT) + ": nostd gives " + got_ + ", std gives " + want_); \
  } while (0)
  auto I = [](long long v) { return vf::sfmt("%lld", v); };
  switch (group) {
    case 0: {  // construction and element access
      c.stage("string_view:access");
      nostd::string_view nd;
      std::string_view sd;
      SAME(I(nd.size()) + I(nd.empty()) + I(nd.data() == nullptr) + I(nd.length()), I(sd.size()) + I(sd.empty()) + I(sd.data() == nullptr) + I(sd.length()), "C20:string_view:ctor", "default constructor");
      CStr cs(s);
      nostd::string_view nc(cs.p);
      std::string_view sc(cs.p);
      SAME(I(nc.size()) + I(nc.data() == cs.p), I(sc.size()) + I(sc.data() == cs.p), "C20:string_view:ctor", "string_view(const char*) of " + qs);
      std::string str(s);
      nostd::string_view nstr(str);
      std::string_view sstr(str);
      SAME(I(nstr.size()) + I(nstr.data() == str.data()), I(sstr.size()) + I(sstr.data() == str.data()), "C20:string_view:ctor", "string_view(std::string) of " + qs);
      SAME(I(ns.size()) + I(ns.length()) + I(ns.empty()) + I(ns.end() - ns.begin()) + I(ns.begin() == ns.data()) + I(ns.data() == nullptr),
           I(ss.size()) + I(ss.length()) + I(ss.empty()) + I(ss.end() - ss.begin()) + I(ss.begin() == ss.data()) + I(ss.data() == nullptr), "C20:string_view:access", "size/length/empty/begin/end of " + qs);
      SAME(q(static_cast<std::string>(ns)), q(std::string(ss)), "C20:string_view:access", "conversion to std::string of " + qs);
      nostd::string_view nm = ns;  // operator[] is non-const
      std::string a, b;
      for (size_t i = 0; i < s.size(); ++i) { a += nm[i]; b += ss[i]; }
      SAME(q(a), q(b), "C20:string_view:access", "operator[] over " + qs);
      a.clear(); b.clear();
      for (char ch : ns) a += ch;
      for (char ch : ss) b += ch;
      SAME(q(a), q(b), "C20:string_view:access", "iteration over " + qs);
      nostd::string_view ncopy(ns);
      nm = nt;
      SAME(I(ncopy.data() == ns.data()) + I(ncopy.size()) + I(nm.data() == nt.data()), "1" + I(ss.size()) + "1", "C20:string_view:ctor", "copy / assignment of " + qs);
      break;
    }
    case 1: {  // compare(v), ordering and equality with every operand kind
      c.stage("string_view:compare");
      std::string w = qs + " vs " + qt;
      SAME(I(sgn(ns.compare(nt))), I(sgn(ss.compare(st))), "C20:string_view:compare", "compare(string_view) " + w);
      SAME(I(sgn(ns.compare(ct.p))), I(sgn(ss.compare(ct.p))), "C20:string_view:compare-cstr", "compare(const char*) " + w);
      SAME(I(ns < nt) + I(ns > nt), I(ss < st) + I(ss > st), "C20:string_view:order", "operator< / operator> " + w);
      SAME(I(ns < stt) + I(ns > stt) + I(ns < ct.p) + I(ns > ct.p), I(ss < stt) + I(ss > stt) + I(ss < ct.p) + I(ss > ct.p), "C20:string_view:order-converted",
           "operator< / operator> with std::string and const char* operands " + w);
      SAME(I(ns == nt) + I(ns != nt), I(ss == st) + I(ss != st), "C20:string_view:eq", "operator== / != (string_view, string_view) " + w);
      SAME(I(ns == stt) + I(ns != stt) + I(stt == ns) + I(stt != ns), I(ss == stt) + I(ss != stt) + I(stt == ss) + I(stt != ss), "C20:string_view:eq-string",
           "operator== / != with a std::string operand " + w);
      SAME(I(ns == ct.p) + I(ns != ct.p) + I(ct.p == ns) + I(ct.p != ns), I(ss == ct.p) + I(ss != ct.p) + I(ct.p == ss) + I(ct.p != ss), "C20:string_view:eq-cstr",
           "operator== / != with a const char* operand " + w);
      break;
    }
    case 2: {  // compare(pos1, count1, v / const char* / const char*, count2)
      c.stage("string_view:compare-pos");
      for (size_t p1 : positions(s.size(), th))
        for (size_t c1 : positions(s.size(), th)) {
          std::string w = vf::sfmt("(%s,%s) of ", pos_str(p1).c_str(), pos_str(c1).c_str()) + qs + " with " + qt;
          SAME(guarded([&] { return I(sgn(ns.compare(p1, c1, nt))); }), guarded([&] { return I(sgn(ss.compare(p1, c1, st))); }), "C20:string_view:compare-pos", "compare(pos1,count1,v) " + w);
          SAME(guarded([&] { return I(sgn(ns.compare(p1, c1, ct.p))); }), guarded([&] { return I(sgn(ss.compare(p1, c1, ct.p))); }), "C20:string_view:compare-pos-cstr",
               "compare(pos1,count1,const char*) " + w);
          for (size_t c2 = 0; c2 <= t.size(); ++c2)
            SAME(guarded([&] { return I(sgn(ns.compare(p1, c1, ct.p, c2))); }), guarded([&] { return I(sgn(ss.compare(p1, c1, ct.p, c2))); }), "C20:string_view:compare-pos-cstr-count",
                 vf::sfmt("compare(pos1,count1,const char*,%zu) ", c2) + w);
        }
      break;
    }
    case 3: {  // compare(pos1, count1, v, pos2, count2)
      c.stage("string_view:compare-pos2");
      for (size_t p1 : positions(s.size(), th))
        for (size_t c1 : positions(s.size(), false))
          for (size_t p2 : positions(t.size(), th))
            for (size_t c2 : positions(t.size(), false))
              SAME(guarded([&] { return I(sgn(ns.compare(p1, c1, nt, p2, c2))); }), guarded([&] { return I(sgn(ss.compare(p1, c1, st, p2, c2))); }), "C20:string_view:compare-pos2",
                   vf::sfmt("compare(%s,%s,v,%s,%s) of ", pos_str(p1).c_str(), pos_str(c1).c_str(), pos_str(p2).c_str(), pos_str(c2).c_str()) + qs + " with " + qt);
      break;
    }
    case 4: {  // find(ch, pos)
      c.stage("string_view:find");
      for (char ch : std::string("ab\0\xff" "c", 5)) {
        SAME(I((long long)ns.find(ch)), I((long long)ss.find(ch)), "C20:string_view:find", vf::sfmt("find('\\x%02x') in ", (unsigned char)ch) + qs);
        for (size_t p : positions(s.size(), th))
          SAME(I((long long)ns.find(ch, p)), I((long long)ss.find(ch, p)), "C20:string_view:find", vf::sfmt("find('\\x%02x',%s) in ", (unsigned char)ch, pos_str(p).c_str()) + qs);
      }
      break;
    }
    case 5: {  // substr(pos, n)
      c.stage("string_view:substr");
      auto show_n = [&](nostd::string_view v) { return vf::sfmt("+%td/%zu", v.data() - ns.data(), v.size()); };
      auto show_s = [&](std::string_view v) { return vf::sfmt("+%td/%zu", v.data() - ss.data(), v.size()); };
      for (size_t p : positions(s.size(), th)) {
        const char *sig = p > s.size() ? "C20:string_view:substr-out-of-range" : "C20:string_view:substr";
        SAME(guarded([&] { return show_n(ns.substr(p)); }), guarded([&] { return show_s(ss.substr(p)); }), sig, vf::sfmt("substr(%s) of ", pos_str(p).c_str()) + qs);
        for (size_t k : positions(s.size(), th))
          SAME(guarded([&] { return show_n(ns.substr(p, k)); }), guarded([&] { return show_s(ss.substr(p, k)); }), sig, vf::sfmt("substr(%s,%s) of ", pos_str(p).c_str(), pos_str(k).c_str()) + qs);
      }
      break;
    }
    case 6: {  // hashing consistent with equality, stream output
      c.stage("string_view:hash");
      size_t h1 = std::hash<nostd::string_view>{}(ns), h2 = std::hash<nostd::string_view>{}(nt);
      ++n;
      c.check(!(ns == nt) || h1 == h2, "C20:string_view:hash", "equal views hash differently: " + qs + " and " + qt);
      c.check(!(ss == st) || h1 == h2, "C20:string_view:hash", "views that std::string_view calls equal hash differently: " + qs + " and " + qt);
      out += I(h1 == h2);
      if (h1 == h2 && s != t) c.counted("hash_collisions_of_unequal_strings");
      c.stage("string_view:stream");
      std::ostringstream on, os;
      on << ns << '|' << nt;
      os << ss << '|' << st;
      SAME(q(on.str()), q(os.str()), "C20:string_view:stream", "operator<< of " + qs + " and " + qt);
      break;
    }
  }
  c.step(n);
  out += vf::sfmt("#%016llx%016llx", (unsigned long long)outh.a, (unsigned long long)outh.b);
  c.state(vf::sfmt("sv|%d|", group) + out);
  c.outcome(vf::sfmt("sv|%d|", group) + out);
#undef SAME
  if (s.size() >= 2 || s_null || t_null) c.sample(vf::sfmt("string_view group %d on ", group) + qs + (binary ? " and " + qt : "") + vf::sfmt(": %llu results equal to std::string_view", (unsigned long long)n));
}

// ==================================================================================================
// span
// ==================================================================================================
// The reference is an index-checked slice: (base pointer, length); at(i) is defined for i < length.
struct Slice {
  const int *base;
  size_t len;
};

template <class S> std::string span_obs(vf::Ctx &c, const S &s, const Slice &m, const std::string &how) {
  std::string o = vf::sfmt("n%zu e%d ", s.size(), int(s.empty()));
  c.check(s.size() == m.len, "C20:span:size", how + vf::sfmt(": size() is %zu, the slice has %zu elements", s.size(), m.len));
  c.check(s.empty() == (m.len == 0), "C20:span:empty", how + ": empty() disagrees with size()");
  if (m.len > 0 || m.base) c.check(s.data() == m.base, "C20:span:data", how + ": data() does not point at the first element of the source");
  size_t k = 0;
  for (auto it = s.begin(); it != s.end(); ++it, ++k) {
    c.check(k < m.len, "C20:span:iteration-past-end", how + vf::sfmt(": iteration yields more than %zu elements", m.len));
    c.check(&*it == m.base + k, "C20:span:iteration", how + vf::sfmt(": element %zu of the iteration is not element %zu of the source", k, k));
    o += vf::sfmt("%d,", *it);
  }
  c.check(k == m.len, "C20:span:iteration-short", how + vf::sfmt(": iteration yields %zu of %zu elements", k, m.len));
  c.check(size_t(s.end() - s.begin()) == m.len, "C20:span:end", how + ": end() - begin() is not the length");
  for (size_t i = 0; i < m.len; ++i) {  // every index the slice model defines
    c.check(&s[i] == m.base + i, "C20:span:index", how + vf::sfmt(": operator[](%zu) is not element %zu of the source", i, i));
    c.check(s[i] == m.base[i], "C20:span:index", how + vf::sfmt(": operator[](%zu) has the wrong value", i));
  }
  c.step(3 + 2 * m.len);
  return o;
}

// exact-size heap array of ints: int values 10*(offset)+i so that neighbouring elements are recognisable
struct HeapInts {
  int *p;
  size_t n;
  explicit HeapInts(size_t k) : p(static_cast<int *>(malloc(k ? k * sizeof(int) : 1))), n(k) { for (size_t i = 0; i < k; ++i) p[i] = 100 + (int)i; }
  ~HeapInts() { free(p); }
  HeapInts(const HeapInts &) = delete;
};

enum SpanCtor { SC_PTR_COUNT, SC_FIRST_LAST, SC_DEFAULT, SC_C_ARRAY, SC_STD_ARRAY, SC_CONST_STD_ARRAY, SC_VECTOR, SC_CONST_VECTOR, SC_STRINGLIKE, SC_COPY, SC_ASSIGN, SC_TO_CONST, SC_STATIC_TO_DYNAMIC, SC_N };
const char *const kSpanCtorName[SC_N] = {"(pointer,count)", "(first,last)", "default", "C array", "std::array&", "const std::array&", "std::vector&", "const std::vector&",
                                         "user container with data()/size()", "copy constructor", "copy assignment", "span<T> -> span<const T>", "span<T,N> -> span<T>"};

// a minimal user container (exercises nostd::data / nostd::size through member functions)
struct IntBox {
  int *p;
  size_t n;
  int *data() { return p; }
  const int *data() const { return p; }
  size_t size() const { return n; }
};

// N = static extent or dynamic_extent; E = number of elements of this case
template <size_t N, size_t E> std::string span_case(vf::Ctx &c, int ctor, size_t off, bool *applicable) {
  constexpr bool dyn = (N == nostd::dynamic_extent);
  static_assert(dyn || N == E, "static extent equals the element count");
  using SpanT = nostd::span<int, N>;
  using CSpanT = nostd::span<const int, N>;
  static_assert(SpanT::extent == N, "extent constant");
  HeapInts buf(off + E);  // the viewed elements are the LAST E ints of an exact-size block
  int *first = buf.p + off;
  std::string how = vf::sfmt("span<int,%s> from %s over %zu elements at offset %zu", dyn ? "dynamic" : vf::sfmt("%zu", N).c_str(), kSpanCtorName[ctor], E, off);
  *applicable = true;
  Slice m{first, E};
  switch (ctor) {
    case SC_PTR_COUNT: { SpanT s(first, E); return span_obs(c, s, m, how); }
    case SC_FIRST_LAST: { SpanT s(first, first + E); return span_obs(c, s, m, how); }
    case SC_DEFAULT:
      if constexpr (E == 0) { SpanT s; Slice z{nullptr, 0}; c.check(s.data() == nullptr, "C20:span:data", how + ": data() of a default span is not null"); return span_obs(c, s, z, how); }
      break;
    case SC_C_ARRAY:
      if constexpr (E > 0) {
        struct Holder { int a[E]; };
        std::unique_ptr<Holder> h(new Holder);
        for (size_t i = 0; i < E; ++i) h->a[i] = 200 + (int)i;
        SpanT s(h->a);
        Slice ma{h->a, E};
        std::string o = span_obs(c, s, ma, how);
        s[E - 1] = 7;  // a span is a view: writes go to the source
        c.check(h->a[E - 1] == 7, "C20:span:write-through", how + ": a write through operator[] did not reach the source");
        return o;
      }
      break;
    case SC_STD_ARRAY: {
      std::unique_ptr<std::array<int, E>> a(new std::array<int, E>);
      for (size_t i = 0; i < E; ++i) (*a)[i] = 300 + (int)i;
      SpanT s(*a);
      Slice ma{a->data(), E};
      return span_obs(c, s, ma, how);
    }
    case SC_CONST_STD_ARRAY: {
      std::unique_ptr<std::array<int, E>> a(new std::array<int, E>);
      for (size_t i = 0; i < E; ++i) (*a)[i] = 400 + (int)i;
      const std::array<int, E> &ca = *a;
      CSpanT s(ca);
      Slice ma{a->data(), E};
      return span_obs(c, s, ma, how);
    }
    case SC_VECTOR: {
      std::vector<int> v(first, first + E);
      v.shrink_to_fit();
      SpanT s(v);
      Slice mv{v.data(), E};
      std::string o = span_obs(c, s, mv, how);
      if (E > 0) { *s.begin() = 9; c.check(v[0] == 9, "C20:span:write-through", how + ": a write through begin() did not reach the source"); }
      return o;
    }
    case SC_CONST_VECTOR: {
      std::vector<int> v(first, first + E);
      v.shrink_to_fit();
      const std::vector<int> &cv = v;
      CSpanT s(cv);
      Slice mv{v.data(), E};
      return span_obs(c, s, mv, how);
    }
    case SC_STRINGLIKE: {
      IntBox box{first, E};
      SpanT s(box);
      const IntBox &cbox = box;
      CSpanT cs(cbox);
      return span_obs(c, s, m, how) + span_obs(c, cs, m, how + " (const)");
    }
    case SC_COPY: { SpanT s0(first, E); SpanT s(s0); return span_obs(c, s, m, how); }
    case SC_ASSIGN: {
      HeapInts other(E);
      SpanT s(other.p, E);
      SpanT s0(first, E);
      s = s0;
      return span_obs(c, s, m, how);
    }
    case SC_TO_CONST: { SpanT s0(first, E); CSpanT s(s0); return span_obs(c, s, m, how); }
    case SC_STATIC_TO_DYNAMIC: {
      nostd::span<int, E> s0(first, E);
      nostd::span<int> s(s0);
      nostd::span<const int> cs(s0);
      return span_obs(c, s, m, how) + span_obs(c, cs, m, how + " (const)");
    }
  }
  *applicable = false;
  return "";
}

template <size_t E> std::string span_extent(vf::Ctx &c, bool dynamic, int ctor, size_t off, bool *applicable) {
  return dynamic ? span_case<nostd::dynamic_extent, E>(c, ctor, off, applicable) : span_case<E, E>(c, ctor, off, applicable);
}

void run_span(vf::Ctx &c) {
  bool dynamic = c.flip("span-dynamic");
  int e = c.pick("span-extent", 4);
  int ctor = c.pick("span-ctor", SC_N);
  size_t off = (size_t)c.pick("span-offset", 3);
  c.stage("span");
  bool applicable = false;
  std::string o;
  switch (e) {
    case 0: o = span_extent<0>(c, dynamic, ctor, off, &applicable); break;
    case 1: o = span_extent<1>(c, dynamic, ctor, off, &applicable); break;
    case 2: o = span_extent<2>(c, dynamic, ctor, off, &applicable); break;
    default: o = span_extent<3>(c, dynamic, ctor, off, &applicable); break;
  }
  if (!applicable) { c.outcome("span|n/a"); return; }  // this constructor does not exist for this extent (as in std::span)
  std::string canon = vf::sfmt("span|%d|%d|%d|%zu|", int(dynamic), e, ctor, off) + o;
  c.state(canon);
  c.outcome(canon);
  c.sample(vf::sfmt("span<int,%s> from %s, %d elements at offset %zu: %s", dynamic ? "dynamic" : "static", kSpanCtorName[ctor], e, off, o.c_str()));
}

// ---- static extent constructed from a source with a different number of elements -------------------------------
// std::span: undefined.  nostd::span (span.h, class comment): "this implementation chooses to terminate"; the API itself
// relies on it (span<T,N> built from a buffer whose size is a run-time value).  Index-checked slice model: a view of N
// elements over E != N elements does not exist.  The construction runs in a forked child whose terminate handler
// exits with a private code; "rejected" = std::terminate was called or the child aborted; a constructor that RETURNS is
// the violation.  The matching count (E == N) runs through the same machinery as the control.
enum { MM_PTR_COUNT, MM_FIRST_LAST, MM_VECTOR, MM_CONST_VECTOR, MM_BOX, MM_CONST_BOX, MM_N };
const char *const kMismatchName[MM_N] = {"(pointer,count)", "(first,last)", "std::vector&", "const std::vector&", "user container&", "const user container&"};

template <size_t N> void mismatch_construct(int ctor, int *first, size_t e) {
  switch (ctor) {
    case MM_PTR_COUNT: { nostd::span<int, N> s(first, e); (void)s; break; }
    case MM_FIRST_LAST: { nostd::span<int, N> s(first, first + e); (void)s; break; }
    case MM_VECTOR: { std::vector<int> v(first, first + e); nostd::span<int, N> s(v); (void)s; break; }
    case MM_CONST_VECTOR: { const std::vector<int> v(first, first + e); nostd::span<const int, N> s(v); (void)s; break; }
    case MM_BOX: { IntBox box{first, e}; nostd::span<int, N> s(box); (void)s; break; }
    default: { const IntBox box{first, e}; nostd::span<const int, N> s(box); (void)s; break; }
  }
}

enum { CHILD_RETURNED = 7, CHILD_TERMINATE = 42 };

void run_span_mismatch(vf::Ctx &c) {
  int n = c.pick("span-static-extent", 4);
  int e = c.pick("span-source-elements", 4);
  int ctor = c.pick("span-ctor", MM_N);
  c.stage("span:static-extent-mismatch");
  HeapInts buf((size_t)e);
  std::string how = vf::sfmt("span<int,%d> from %s over %d elements", n, kMismatchName[ctor], e);
  fflush(nullptr);
  pid_t pid = fork();
  if (pid < 0) c.fail("C20:harness:fork", "fork failed");
  if (pid == 0) {
    if (!c.tracing()) {
      int nul = open("/dev/null", O_WRONLY);
      if (nul >= 0) { dup2(nul, 2); close(nul); }
    }
    std::set_terminate([] { _exit(CHILD_TERMINATE); });
    switch (n) {
      case 0: mismatch_construct<0>(ctor, buf.p, (size_t)e); break;
      case 1: mismatch_construct<1>(ctor, buf.p, (size_t)e); break;
      case 2: mismatch_construct<2>(ctor, buf.p, (size_t)e); break;
      default: mismatch_construct<3>(ctor, buf.p, (size_t)e); break;
    }
    _exit(CHILD_RETURNED);
  }
  int status = 0;
  while (waitpid(pid, &status, 0) < 0 && errno == EINTR) {}
  c.step();
  const bool returned = WIFEXITED(status) && WEXITSTATUS(status) == CHILD_RETURNED;
  const bool terminated = WIFEXITED(status) && WEXITSTATUS(status) == CHILD_TERMINATE;
  const bool aborted = WIFSIGNALED(status) && WTERMSIG(status) == SIGABRT;
  std::string res = returned ? "constructed" : terminated ? "std::terminate" : aborted ? "abort" : vf::sfmt("status 0x%x", status);
  if (e == n) {
    c.check(returned, "C20:span:static-extent-match-rejected", how + ": the matching count was not accepted (" + res + ")");
  } else {
    c.check(returned || terminated || aborted, "C20:span:static-extent-mismatch-crash", how + ": neither constructed nor rejected by terminate/abort (" + res + ")");
    c.check(!returned, e < n ? "C20:span:static-extent-mismatch-accepted:short-source" : "C20:span:static-extent-mismatch-accepted:long-source",
            how + ": the constructor returned; nostd::span defines this case as std::terminate" + (e < n ? " (the span covers elements the source does not have)" : ""));
  }
  std::string canon = vf::sfmt("span-mismatch|%d|%d|%d|", n, e, ctor) + res;
  c.state(canon);
  c.outcome(canon);
  if (e != n) c.sample(how + ": " + res);
}

// ---- nostd::data / nostd::size / index_sequence (nostd/utility.h) against std::data / std::size ------------------
static_assert(std::is_same<nostd::make_index_sequence<0>, nostd::index_sequence<>>::value, "make_index_sequence<0>");
static_assert(std::is_same<nostd::make_index_sequence<1>, nostd::index_sequence<0>>::value, "make_index_sequence<1>");
static_assert(std::is_same<nostd::make_index_sequence<4>, nostd::index_sequence<0, 1, 2, 3>>::value, "make_index_sequence<4>");
static_assert(std::is_same<nostd::index_sequence_for<int, char, long>, nostd::index_sequence<0, 1, 2>>::value, "index_sequence_for");
static_assert(nostd::make_index_sequence<5>::size() == 5 && nostd::index_sequence<>::size() == 0, "integer_sequence::size");
static_assert(std::is_same<nostd::index_sequence<7>::value_type, size_t>::value && nostd::bool_constant<true>::value && !nostd::bool_constant<false>::value, "value_type / bool_constant");

template <size_t... Is> std::string seq_str(nostd::index_sequence<Is...>) {
  std::string o;
  size_t v[] = {Is..., size_t(99)};
  for (size_t i = 0; i + 1 < sizeof v / sizeof v[0]; ++i) o += vf::sfmt("%zu,", v[i]);
  return o;
}

template <size_t E> std::string utility_arrays(vf::Ctx &c) {
  struct Holder { int a[E]; };  // the array is the whole of an exact-size heap block
  std::unique_ptr<Holder> h(new Holder);
  for (size_t i = 0; i < E; ++i) h->a[i] = 500 + (int)i;
  const Holder &ch = *h;
  static_assert(std::is_same<decltype(nostd::data(h->a)), decltype(std::data(h->a))>::value && std::is_same<decltype(nostd::data(ch.a)), decltype(std::data(ch.a))>::value, "nostd::data of an array: type");
  c.check(nostd::data(h->a) == std::data(h->a) && nostd::data(ch.a) == std::data(ch.a), "C20:utility:data:array", vf::sfmt("nostd::data of an int[%zu] is not the first element", E));
  c.check(nostd::size(h->a) == std::size(h->a) && nostd::size(ch.a) == std::size(ch.a), "C20:utility:size:array",
          vf::sfmt("nostd::size of an int[%zu] is %zu (const: %zu), std::size gives %zu", E, (size_t)nostd::size(h->a), (size_t)nostd::size(ch.a), (size_t)std::size(h->a)));
  std::array<int, E> arr{};
  const std::array<int, E> &carr = arr;
  c.check(nostd::data(arr) == std::data(arr) && nostd::data(carr) == std::data(carr) && nostd::size(arr) == std::size(arr), "C20:utility:data-size:std-array", vf::sfmt("nostd::data / size of a std::array<int,%zu>", E));
  c.step(3);
  return vf::sfmt("arr%zu:%zu:%d;seq:", E, (size_t)nostd::size(h->a), *nostd::data(h->a)) + seq_str(nostd::make_index_sequence<E>{});
}

void run_utility(vf::Ctx &c) {
  int kind = c.pick("utility-kind", 6);
  c.stage("utility");
  std::string o;
  switch (kind) {
    case 0: o = utility_arrays<1>(c); break;
    case 1: o = utility_arrays<2>(c); break;
    case 2: o = utility_arrays<3>(c); break;
    case 3: {  // initializer_list
      std::initializer_list<int> il = {4, 5, 6};
      std::initializer_list<int> none;
      static_assert(std::is_same<decltype(nostd::data(il)), decltype(std::data(il))>::value, "nostd::data of an initializer_list: type");
      c.check(nostd::data(il) == std::data(il) && nostd::data(il) == il.begin(), "C20:utility:data:initializer-list", "nostd::data(initializer_list) is not begin()");
      c.check(nostd::size(il) == std::size(il) && nostd::size(none) == 0, "C20:utility:size:initializer-list", vf::sfmt("nostd::size(initializer_list of 3) is %zu", (size_t)nostd::size(il)));
      c.check(nostd::data(none) == std::data(none), "C20:utility:data:initializer-list", "nostd::data of an empty initializer_list differs from std::data");
      c.step(3);
      o = vf::sfmt("il:%zu:%d", (size_t)nostd::size(il), *nostd::data(il));
      break;
    }
    case 4: {  // standard containers, const and non-const
      for (size_t e = 0; e < 4; ++e) {
        std::vector<int> v(e, 3);
        const std::vector<int> &cv = v;
        std::string str(e, 'z');
        const std::string &cstr = str;
        static_assert(std::is_same<decltype(nostd::data(v)), int *>::value && std::is_same<decltype(nostd::data(cv)), const int *>::value, "nostd::data of a vector: type");
        static_assert(std::is_same<decltype(nostd::data(str)), char *>::value && std::is_same<decltype(nostd::data(cstr)), const char *>::value, "nostd::data of a string: type");
        c.check(nostd::data(v) == std::data(v) && nostd::data(cv) == std::data(cv) && nostd::size(v) == std::size(v) && nostd::size(cv) == e, "C20:utility:data-size:vector", vf::sfmt("nostd::data / size of a vector of %zu elements", e));
        c.check(nostd::data(str) == std::data(str) && nostd::data(cstr) == std::data(cstr) && nostd::size(str) == std::size(str) && nostd::size(cstr) == e, "C20:utility:data-size:string", vf::sfmt("nostd::data / size of a string of %zu characters", e));
        c.step(2);
        o += vf::sfmt("v%zu:%zu;", e, (size_t)nostd::size(v));
      }
      break;
    }
    default: {  // user container (member data()/size()), string_view
      for (size_t e = 0; e < 4; ++e) {
        HeapInts buf(e);
        IntBox box{buf.p, e};
        const IntBox &cbox = box;
        static_assert(std::is_same<decltype(nostd::data(box)), int *>::value && std::is_same<decltype(nostd::data(cbox)), const int *>::value, "nostd::data of a user container: type");
        c.check(nostd::data(box) == buf.p && nostd::data(cbox) == buf.p && nostd::size(box) == e && nostd::size(cbox) == e, "C20:utility:data-size:user-container", vf::sfmt("nostd::data / size of a user container of %zu elements", e));
        vfq::HeapStr hs(std::string(e, 'q'));
        nostd::string_view sv = hs.view();
        c.check(nostd::data(sv) == sv.data() && nostd::size(sv) == e, "C20:utility:data-size:string_view", vf::sfmt("nostd::data / size of a string_view of %zu characters", e));
        c.step(2);
        o += vf::sfmt("b%zu:%zu;", e, (size_t)nostd::size(box));
      }
      break;
    }
  }
  c.state("utility|" + o);
  c.outcome("utility|" + o);
  c.sample("nostd::data / nostd::size / make_index_sequence, case " + o + ": equal to std::data / std::size");
}

// ==================================================================================================
// function_ref
// ==================================================================================================
int free_add(int a, int b) { return a * 10 + b; }
long free_long(int a, int b) { return 1000L + a - b; }
void free_bump(int &x) { x += 5; }

struct Accumulator {  // functor with state
  int total = 0, calls = 0;
  int operator()(int a, int b) { total += a - b; ++calls; return total; }
};
struct Doubler {
  int factor;
  void operator()(int &x) { x *= factor; ++factor; }
};

// assignment of one function_ref to another, if the type offers it (today it does not: the user-declared move constructor
// deletes the implicit copy assignment; should a release add it, this starts to exercise it)
template <class F> bool assign_if_offered(F &dst, const F &src) {
  if constexpr (std::is_copy_assignable<F>::value) {
    dst = src;
    return true;
  } else {
    (void)dst; (void)src;
    return false;
  }
}

// Calls `direct` (the reference) and `ref` (through function_ref) `calls` times each on twin state.
void run_function_ref(vf::Ctx &c) {
  int kind = c.pick("fr-kind", 16);
  int calls = 1 + c.pick("fr-calls", 3);
  int a = c.pick("fr-a", 3) - 1, b = c.pick("fr-b", 2) + 2;
  bool copy = c.flip("fr-copy");  // call through a copy of the function_ref
  c.stage("function_ref");
  std::string got, want;
  auto I = [](long long v) { return vf::sfmt("%lld,", v); };
  using FII = nostd::function_ref<int(int, int)>;
  using FLI = nostd::function_ref<long(int, int)>;
  using FVR = nostd::function_ref<void(int &)>;
  auto call_ii = [&](FII f) { FII g(copy ? FII(f) : f); c.check(bool(g), "C20:function_ref:bool", "a bound function_ref converts to false"); for (int k = 0; k < calls; ++k) got += I(g(a + k, b)); };
  auto call_vr = [&](FVR f, int start) { FVR g(copy ? FVR(f) : f); int x = start; for (int k = 0; k < calls; ++k) { g(x); got += I(x); } };
  switch (kind) {
    case 0: {  // stateless lambda
      auto l = [](int x, int y) { return x - 2 * y; };
      call_ii(l);
      for (int k = 0; k < calls; ++k) want += I(l(a + k, b));
      break;
    }
    case 1: {  // lambda capturing by reference: effects reach the captured variable
      int sum_ref = 0, sum_direct = 0;
      auto l = [&sum_ref](int x, int y) { sum_ref += x + y; return sum_ref; };
      auto l2 = [&sum_direct](int x, int y) { sum_direct += x + y; return sum_direct; };
      call_ii(l);
      for (int k = 0; k < calls; ++k) want += I(l2(a + k, b));
      got += I(sum_ref); want += I(sum_direct);
      break;
    }
    case 2: {  // mutable lambda with its own state: function_ref does not copy it
      auto l = [n = 0](int x, int y) mutable { n += x * y; return n; };
      auto l2 = l;
      call_ii(l);
      for (int k = 0; k < calls; ++k) want += I(l2(a + k, b));
      got += I(l(0, 0)); want += I(l2(0, 0));  // the state advanced in the original object
      break;
    }
    case 3: {  // function pointer
      call_ii(&free_add);
      for (int k = 0; k < calls; ++k) want += I(free_add(a + k, b));
      break;
    }
    case 4: {  // function (decays / binds by reference)
      call_ii(free_add);
      for (int k = 0; k < calls; ++k) want += I(free_add(a + k, b));
      break;
    }
    case 5: {  // functor with state
      Accumulator acc, twin;
      call_ii(acc);
      for (int k = 0; k < calls; ++k) want += I(twin(a + k, b));
      got += I(acc.total) + I(acc.calls); want += I(twin.total) + I(twin.calls);
      c.check(acc.calls == calls, "C20:function_ref:copies-callable", vf::sfmt("the referenced functor saw %d of %d calls", acc.calls, calls));
      break;
    }
    case 6: {  // return type conversion int -> long, long function
      auto l = [](int x, int y) { return x + y; };
      FLI f(l);
      FLI g(free_long);
      for (int k = 0; k < calls; ++k) { got += I(f(a + k, b)) + I(g(a + k, b)); want += I(long(l(a + k, b))) + I(free_long(a + k, b)); }
      break;
    }
    case 7: {  // reference argument, free function
      call_vr(free_bump, a);
      int x = a;
      for (int k = 0; k < calls; ++k) { free_bump(x); want += I(x); }
      break;
    }
    case 8: {  // reference argument, functor with state
      Doubler d{b}, twin{b};
      call_vr(d, a + 1);
      int x = a + 1;
      for (int k = 0; k < calls; ++k) { twin(x); want += I(x); }
      got += I(d.factor); want += I(twin.factor);
      break;
    }
    case 9: {  // move-only argument passed by value
      auto l = [](std::unique_ptr<int> p) { return p ? *p + 1 : -1; };
      nostd::function_ref<int(std::unique_ptr<int>)> g(l);
      for (int k = 0; k < calls; ++k) {
        got += I(g(std::unique_ptr<int>(new int(a + k)))) + I(g(std::unique_ptr<int>()));
        want += I(l(std::unique_ptr<int>(new int(a + k)))) + I(l(std::unique_ptr<int>()));
      }
      break;
    }
    case 10: {  // string arguments by const reference and by value, string result
      auto l = [](const std::string &x, std::string y) { return x + "/" + y; };
      nostd::function_ref<std::string(const std::string &, std::string)> f(l);
      std::string s1(size_t(a + 2), 'x'), s2(size_t(b), 'y');
      for (int k = 0; k < calls; ++k) { got += f(s1, s2) + ","; want += l(s1, s2) + ","; }
      break;
    }
    case 11: {  // empty references
      FII n1(nullptr);
      int (*nullfn)(int, int) = nullptr;
      FII n2(nullfn);
      FII n3(n1);
      FII bound(&free_add);
      got += I(bool(n1)) + I(bool(n2)) + I(bool(n3)) + I(bool(bound));
      want += I(0) + I(0) + I(0) + I(1);
      break;
    }
    case 12: {  // function pointer whose signature differs from the function_ref's: result int -> long, arguments short/char -> int
      nostd::function_ref<long(short, char)> f(&free_add);
      nostd::function_ref<long(short, char)> g(copy ? nostd::function_ref<long(short, char)>(f) : f);
      FLI h(&free_add);                       // result conversion only
      c.check(bool(g) && bool(h), "C20:function_ref:bool", "a function_ref bound to a function pointer of a converting signature converts to false");
      for (int k = 0; k < calls; ++k) {
        got += I(g(short(a + k), char(b))) + I(h(a + k, b));
        want += I(long(free_add(short(a + k), char(b)))) + I(long(free_add(a + k, b)));
      }
      int (*const cfp)(int, int) = &free_add;  // const-qualified function pointer object
      FII viaconst(cfp);
      got += I(viaconst(a, b)); want += I(free_add(a, b));
      break;
    }
    case 13: {  // temporaries as the argument of a function taking a function_ref (the dominant use in the API: ForEachKeyValue etc.)
      int seen_ref = 0, seen_direct = 0;
      call_ii([](int x, int y) { return 3 * x - y; });
      call_ii([&seen_ref](int x, int y) { seen_ref += x * y + 1; return seen_ref; });
      call_ii(Accumulator{});
      auto l1 = [](int x, int y) { return 3 * x - y; };
      auto l2 = [&seen_direct](int x, int y) { seen_direct += x * y + 1; return seen_direct; };
      Accumulator twin;
      for (int k = 0; k < calls; ++k) want += I(l1(a + k, b));
      for (int k = 0; k < calls; ++k) want += I(l2(a + k, b));
      for (int k = 0; k < calls; ++k) want += I(twin(a + k, b));
      got += I(seen_ref); want += I(seen_direct);
      break;
    }
    case 14: {  // assignment (only if the type offers it), copies are independent handles to the same callable
      Accumulator acc1, acc2, twin1, twin2;
      FII f1(acc1), f2(acc2);
      FII g(f1);
      bool offered = assign_if_offered(g, f2);
      if (!offered) c.counted("function_ref_assignment_not_offered");
      for (int k = 0; k < calls; ++k) {
        got += I(g(a + k, b)); want += I((offered ? twin2 : twin1)(a + k, b));
        got += I(f1(a, b)); want += I(twin1(a, b));
      }
      got += I(acc1.calls) + I(acc2.calls); want += I(twin1.calls) + I(twin2.calls);
      break;
    }
    case 15: {  // calling through a const function_ref, through a reference to it, and re-binding by construction from another signature's ref
      Accumulator acc, twin;
      const FII cf(acc);
      const FII &rcf = cf;
      FII inner(acc);
      FLI widened(inner);  // a function_ref is itself a callable: function_ref<long(int,int)> bound to a function_ref<int(int,int)> object
      for (int k = 0; k < calls; ++k) {
        got += I(cf(a + k, b)); want += I(twin(a + k, b));
        got += I(rcf(a, b)); want += I(twin(a, b));
        got += I(widened(a - k, b)); want += I(long(twin(a - k, b)));
      }
      got += I(acc.calls); want += I(twin.calls);
      break;
    }
  }
  c.step((uint64_t)calls);
  c.check(got == want, "C20:function_ref:result", vf::sfmt("callable kind %d, %d calls, a=%d b=%d%s: through function_ref [%s], direct [%s]", kind, calls, a, b, copy ? " (copied ref)" : "", got.c_str(), want.c_str()));
  c.state(vf::sfmt("fr|%d|", kind) + got);
  c.outcome(vf::sfmt("fr|%d|", kind) + got);
  c.sample(vf::sfmt("function_ref kind %d x%d (a=%d,b=%d): [%s] equals the direct calls", kind, calls, a, b, got.c_str()));
}

// ==================================================================================================
// variant
// ==================================================================================================
int g_live[2];       // live Tracked / Bomb instances per side (0 = std, 1 = nostd)
bool g_armed = false;  // Bomb constructors throw while armed
struct BombEx {};

template <int Side> struct Tracked {
  int v;
  bool moved = false;
  explicit Tracked(int x) : v(x) { ++g_live[Side]; }
  Tracked(const Tracked &o) : v(o.v), moved(o.moved) { ++g_live[Side]; }
  Tracked(Tracked &&o) noexcept : v(o.v), moved(o.moved) { o.moved = true; ++g_live[Side]; }
  Tracked &operator=(const Tracked &o) { v = o.v; moved = o.moved; return *this; }
  Tracked &operator=(Tracked &&o) noexcept { v = o.v; moved = o.moved; o.moved = true; return *this; }
  ~Tracked() { --g_live[Side]; }
  bool operator==(const Tracked &o) const { return v == o.v; }
  bool operator!=(const Tracked &o) const { return v != o.v; }
  bool operator<(const Tracked &o) const { return v < o.v; }
  bool operator>(const Tracked &o) const { return v > o.v; }
  bool operator<=(const Tracked &o) const { return v <= o.v; }
  bool operator>=(const Tracked &o) const { return v >= o.v; }
};
// an alternative whose constructors can throw (copy and move): drives valueless_by_exception
template <int Side> struct Bomb {
  int v;
  explicit Bomb(int x) : v(x) { if (g_armed) throw BombEx{}; ++g_live[Side]; }
  Bomb(const Bomb &o) : v(o.v) { if (g_armed) throw BombEx{}; ++g_live[Side]; }
  Bomb(Bomb &&o) : v(o.v) { if (g_armed) throw BombEx{}; ++g_live[Side]; }
  Bomb &operator=(const Bomb &o) { if (g_armed) throw BombEx{}; v = o.v; return *this; }
  Bomb &operator=(Bomb &&o) { if (g_armed) throw BombEx{}; v = o.v; return *this; }
  ~Bomb() { --g_live[Side]; }
  bool operator==(const Bomb &o) const { return v == o.v; }
  bool operator!=(const Bomb &o) const { return v != o.v; }
  bool operator<(const Bomb &o) const { return v < o.v; }
  bool operator>(const Bomb &o) const { return v > o.v; }
  bool operator<=(const Bomb &o) const { return v <= o.v; }
  bool operator>=(const Bomb &o) const { return v >= o.v; }
};

struct StdV {
  static constexpr int side = 0;
  using mono = std::monostate;
  using V = std::variant<std::monostate, bool, int64_t, uint64_t, double, std::string, Tracked<0>, Bomb<0>>;
  using bad = std::bad_variant_access;
  template <class T> static bool holds(const V &v) { return std::holds_alternative<T>(v); }
  template <class T> static T &get(V &v) { return std::get<T>(v); }
  template <size_t I> static auto &geti(V &v) { return std::get<I>(v); }
  template <class T> static T *get_if(V *v) { return std::get_if<T>(v); }
  template <size_t I> static auto *get_ifi(V *v) { return std::get_if<I>(v); }
  template <class F, class... Vs> static decltype(auto) visit(F &&f, Vs &&...vs) { return std::visit(std::forward<F>(f), std::forward<Vs>(vs)...); }
  static constexpr size_t size = std::variant_size<V>::value;
  template <size_t I> using alt = std::variant_alternative_t<I, V>;
  // the overloads for const lvalues, rvalues and const rvalues (separate function templates in both libraries)
  template <class T> static const T &get_c(const V &v) { return std::get<T>(v); }
  template <class T> static T &&get_r(V &&v) { return std::get<T>(std::move(v)); }
  template <class T> static const T &&get_cr(const V &&v) { return std::get<T>(std::move(v)); }
  template <size_t I> static const alt<I> &geti_c(const V &v) { return std::get<I>(v); }
  template <size_t I> static alt<I> &&geti_r(V &&v) { return std::get<I>(std::move(v)); }
  template <size_t I> static const alt<I> &&geti_cr(const V &&v) { return std::get<I>(std::move(v)); }
  template <class T> static const T *get_if_c(const V *v) { return std::get_if<T>(v); }
  template <size_t I> static const alt<I> *get_ifi_c(const V *v) { return std::get_if<I>(v); }
  template <class T, class... A> static V *make_type(A &&...a) { return new V(std::in_place_type<T>, std::forward<A>(a)...); }
  template <size_t I, class... A> static V *make_index(A &&...a) { return new V(std::in_place_index<I>, std::forward<A>(a)...); }
  template <class T, class E> static V *make_type_il(std::initializer_list<E> il) { return new V(std::in_place_type<T>, il); }
  template <size_t I, class E> static V *make_index_il(std::initializer_list<E> il) { return new V(std::in_place_index<I>, il); }
};
struct NoV {
  static constexpr int side = 1;
  using mono = nostd::monostate;
  using V = nostd::variant<nostd::monostate, bool, int64_t, uint64_t, double, std::string, Tracked<1>, Bomb<1>>;
  using bad = nostd::bad_variant_access;
  template <class T> static bool holds(const V &v) { return nostd::holds_alternative<T>(v); }
  template <class T> static T &get(V &v) { return nostd::get<T>(v); }
  template <size_t I> static auto &geti(V &v) { return nostd::get<I>(v); }
  template <class T> static T *get_if(V *v) { return nostd::get_if<T>(v); }
  template <size_t I> static auto *get_ifi(V *v) { return nostd::get_if<I>(v); }
  template <class F, class... Vs> static decltype(auto) visit(F &&f, Vs &&...vs) { return nostd::visit(std::forward<F>(f), std::forward<Vs>(vs)...); }
  static constexpr size_t size = nostd::variant_size<V>::value;
  template <size_t I> using alt = nostd::variant_alternative_t<I, V>;
  template <class T> static const T &get_c(const V &v) { return nostd::get<T>(v); }
  template <class T> static T &&get_r(V &&v) { return nostd::get<T>(std::move(v)); }
  template <class T> static const T &&get_cr(const V &&v) { return nostd::get<T>(std::move(v)); }
  template <size_t I> static const alt<I> &geti_c(const V &v) { return nostd::get<I>(v); }
  template <size_t I> static alt<I> &&geti_r(V &&v) { return nostd::get<I>(std::move(v)); }
  template <size_t I> static const alt<I> &&geti_cr(const V &&v) { return nostd::get<I>(std::move(v)); }
  template <class T> static const T *get_if_c(const V *v) { return nostd::get_if<T>(v); }
  template <size_t I> static const alt<I> *get_ifi_c(const V *v) { return nostd::get_if<I>(v); }
  // nostd exports no in_place tags of its own for the variant (nostd::in_place_type_t of nostd/utility.h is a different type);
  // the constructors take the tags of the vendored absl
  template <class T, class... A> static V *make_type(A &&...a) { return new V(absl::OTABSL_OPTION_NAMESPACE_NAME::in_place_type<T>, std::forward<A>(a)...); }
  template <size_t I, class... A> static V *make_index(A &&...a) { return new V(absl::OTABSL_OPTION_NAMESPACE_NAME::in_place_index<I>, std::forward<A>(a)...); }
  template <class T, class E> static V *make_type_il(std::initializer_list<E> il) { return new V(absl::OTABSL_OPTION_NAMESPACE_NAME::in_place_type<T>, il); }
  template <size_t I, class E> static V *make_index_il(std::initializer_list<E> il) { return new V(absl::OTABSL_OPTION_NAMESPACE_NAME::in_place_index<I>, il); }
};
// result types of the rvalue / const overloads
static_assert(std::is_same<decltype(nostd::get<5>(std::declval<NoV::V &&>())), std::string &&>::value && std::is_same<decltype(std::get<5>(std::declval<StdV::V &&>())), std::string &&>::value, "get<I>(V&&)");
static_assert(std::is_same<decltype(nostd::get<std::string>(std::declval<const NoV::V &&>())), const std::string &&>::value, "get<T>(const V&&)");
static_assert(std::is_same<decltype(nostd::get<2>(std::declval<const NoV::V &>())), const int64_t &>::value, "get<I>(const V&)");
static_assert(std::is_same<decltype(nostd::get_if<2>(std::declval<const NoV::V *>())), const int64_t *>::value, "get_if<I>(const V*)");
static_assert(StdV::size == 8 && NoV::size == 8, "variant_size");
static_assert(std::is_same<NoV::alt<2>, int64_t>::value && std::is_same<NoV::alt<5>, std::string>::value && std::is_same<NoV::alt<0>, nostd::monostate>::value, "variant_alternative_t");

constexpr int kAlts = 8;
const char *const kAltName[kAlts] = {"monostate", "bool", "int64", "uint64", "double", "string", "Tracked", "Bomb"};

struct Show {  // visitor: type name and value
  template <class M> typename std::enable_if<std::is_empty<M>::value, std::string>::type operator()(const M &) const { return "mono"; }
  std::string operator()(bool b) const { return b ? "bool:1" : "bool:0"; }
  std::string operator()(int64_t v) const { return vf::sfmt("i64:%lld", (long long)v); }
  std::string operator()(uint64_t v) const { return vf::sfmt("u64:%llu", (unsigned long long)v); }
  std::string operator()(double v) const { return std::isnan(v) ? "dbl:nan" : vf::sfmt("dbl:%g", v); }
  std::string operator()(const std::string &s) const { return "str:" + s; }
  template <int S> std::string operator()(const Tracked<S> &t) const { return vf::sfmt("trk:%d%s", t.v, t.moved ? "(moved)" : ""); }
  template <int S> std::string operator()(const Bomb<S> &t) const { return vf::sfmt("bomb:%d", t.v); }
};
struct Show2 {
  template <class A, class B> std::string operator()(const A &a, const B &b) const { return Show{}(a) + "+" + Show{}(b); }
};
struct Show3 {
  template <class A, class B, class C> std::string operator()(const A &a, const B &b, const C &c3) const { return Show{}(a) + "+" + Show{}(b) + "+" + Show{}(c3); }
};
struct Cat {  // value category and constness with which the visitor receives the alternative
  template <class T> std::string operator()(T &&v) const {
    using U = typename std::remove_reference<T>::type;
    return std::string(std::is_lvalue_reference<T>::value ? "L" : "R") + (std::is_const<U>::value ? "c:" : "m:") + Show{}(v);
  }
};
struct Take {  // consumes the alternative it is given (only an rvalue visit hands over something that can be moved from)
  template <class T> std::string operator()(T &&v) const {
    typename std::decay<T>::type taken(std::forward<T>(v));
    return Show{}(taken);
  }
};
struct VoidVis {  // visitor returning void
  std::string *out;
  template <class T> void operator()(const T &v) const { *out = Show{}(v); }
};
struct RefVis {  // visitor returning a reference
  size_t *cells;
  template <class T> size_t &operator()(const T &) const { return cells[std::is_arithmetic<T>::value ? 1 : 0]; }
};

template <class F> struct VWorld {
  using V = typename F::V;
  std::unique_ptr<V> v[2];
  int emplace_ret = -1;  // last operation was an emplace: 1 = the returned reference is the new alternative inside the variant, 0 = it is not
  VWorld() { v[0].reset(new V()); v[1].reset(new V()); }

  template <class T> std::string probe(V &x) {
    // holds_alternative / get_if / get by type; get throws exactly when the alternative is not held
    std::string o = F::template holds<T>(x) ? "h" : "-";
    T *p = F::template get_if<T>(&x);
    o += p ? "p" : "-";
    try {
      T &r = F::template get<T>(x);
      o += (&r == p) ? "g" : "G";
    } catch (const typename F::bad &) {
      o += "!";
    }
    return o;
  }
  template <size_t I> std::string probe_i(V &x) {
    std::string o;
    auto *p = F::template get_ifi<I>(&x);
    o += p ? "p" : "-";
    try {
      auto &r = F::template geti<I>(x);
      o += (&r == p) ? "g" : "G";
    } catch (const typename F::bad &) {
      o += "!";
    }
    return o;
  }
  std::string describe(V &x) {
    std::string o = vf::sfmt("idx=%d vl=%d ", x.index() == size_t(-1) ? -1 : (int)x.index(), int(x.valueless_by_exception()));
    o += probe<typename F::mono>(x) + probe<bool>(x) + probe<int64_t>(x) + probe<uint64_t>(x) + probe<double>(x) + probe<std::string>(x) + probe<Tracked<F::side>>(x) + probe<Bomb<F::side>>(x);
    o += " " + probe_i<0>(x) + probe_i<1>(x) + probe_i<2>(x) + probe_i<3>(x) + probe_i<4>(x) + probe_i<5>(x) + probe_i<6>(x) + probe_i<7>(x);
    try {
      o += " visit=" + F::visit(Show{}, x);
    } catch (const typename F::bad &) {
      o += " visit=!bad_variant_access";
    }
    return o;
  }
  // alternative and value of both variants (through visit; a valueless variant throws) and the instance count
  std::string canon() {
    std::string o;
    for (int t = 0; t < 2; ++t) {
      try { o += F::visit(Show{}, *v[t]); } catch (const typename F::bad &) { o += "valueless"; }
      o += "|";
    }
    return o + vf::sfmt("%d", g_live[F::side]);
  }
  std::string observe() {
    V &a = *v[0], &b = *v[1];
    std::string o = "a{" + describe(a) + "} b{" + describe(b) + "}";
    try {
      o += " visit2=" + F::visit(Show2{}, a, b);
    } catch (const typename F::bad &) {
      o += " visit2=!bad_variant_access";
    }
    o += vf::sfmt(" rel=%d%d%d%d%d%d", int(a == b), int(a != b), int(a < b), int(a > b), int(a <= b), int(a >= b));
    o += vf::sfmt(" live=%d", g_live[F::side]);
    if (emplace_ret >= 0) o += vf::sfmt(" emplace-returns-new-alternative=%d", emplace_ret);
    return o;
  }

  // ---- the remaining overloads: const lvalue / rvalue / const rvalue forms of get, get_if, visit; visitors returning void / a reference;
  // ---- ternary visit.  `tmp` is a copy of x that is only ever cast to an rvalue (get on an rvalue moves nothing by itself).
  template <class T> std::string probe_forms(V &x, V &tmp) {
    const V &cx = x;
    std::string o = F::template holds<T>(cx) ? "h" : "-";
    const T *p = F::template get_if_c<T>(&cx);
    o += p ? "p" : "-";
    o += (p == F::template get_if<T>(&x)) ? "=" : "#";
    try { const T &r = F::template get_c<T>(cx); o += (&r == p) ? "c" : "C"; } catch (const typename F::bad &) { o += "!"; }
    T *pt = F::template get_if<T>(&tmp);
    try { T &&r = F::template get_r<T>(std::move(tmp)); o += (&r == pt) ? "r" : "R"; } catch (const typename F::bad &) { o += "!"; }
    try { const T &&r = F::template get_cr<T>(static_cast<const V &&>(tmp)); o += (&r == pt) ? "k" : "K"; } catch (const typename F::bad &) { o += "!"; }
    return o;
  }
  template <size_t I> std::string probe_forms_i(V &x, V &tmp) {
    const V &cx = x;
    const auto *p = F::template get_ifi_c<I>(&cx);
    std::string o = p ? "p" : "-";
    o += (p == F::template get_ifi<I>(&x)) ? "=" : "#";
    try { const auto &r = F::template geti_c<I>(cx); o += (&r == p) ? "c" : "C"; } catch (const typename F::bad &) { o += "!"; }
    auto *pt = F::template get_ifi<I>(&tmp);
    try { auto &&r = F::template geti_r<I>(std::move(tmp)); o += (&r == pt) ? "r" : "R"; } catch (const typename F::bad &) { o += "!"; }
    try { const auto &&r = F::template geti_cr<I>(static_cast<const V &&>(tmp)); o += (&r == pt) ? "k" : "K"; } catch (const typename F::bad &) { o += "!"; }
    return o;
  }
  template <class Fn> static std::string guarded_visit(Fn fn) {
    try { return fn(); } catch (const typename F::bad &) { return "!bad_variant_access"; }
  }
  std::string describe_forms(V &x, V &y) {
    const V &cx = x;
    std::string o = describe(x);
    int before = g_live[F::side];
    {
      V tmp(x);
      o += " cv:" + probe_forms<typename F::mono>(x, tmp) + probe_forms<bool>(x, tmp) + probe_forms<int64_t>(x, tmp) + probe_forms<uint64_t>(x, tmp) + probe_forms<double>(x, tmp) + probe_forms<std::string>(x, tmp) +
           probe_forms<Tracked<F::side>>(x, tmp) + probe_forms<Bomb<F::side>>(x, tmp);
      o += " " + probe_forms_i<0>(x, tmp) + probe_forms_i<1>(x, tmp) + probe_forms_i<2>(x, tmp) + probe_forms_i<3>(x, tmp) + probe_forms_i<4>(x, tmp) + probe_forms_i<5>(x, tmp) + probe_forms_i<6>(x, tmp) + probe_forms_i<7>(x, tmp);
      o += " idx=" + vf::sfmt("%d/%d", cx.index() == size_t(-1) ? -1 : (int)cx.index(), int(cx.valueless_by_exception()));
      o += " visit[" + guarded_visit([&] { return F::visit(Cat{}, x); }) + "|" + guarded_visit([&] { return F::visit(Cat{}, cx); }) + "|" + guarded_visit([&] { return F::visit(Cat{}, std::move(tmp)); }) + "|" +
           guarded_visit([&] { return F::visit(Cat{}, static_cast<const V &&>(tmp)); }) + "]";
      o += " after-category-visits=" + guarded_visit([&] { return F::visit(Show{}, tmp); });  // receiving an rvalue does not move by itself
      o += " take=" + guarded_visit([&] { return F::visit(Take{}, std::move(tmp)); }) + " then=" + guarded_visit([&] { return F::visit(Show{}, tmp); });
      o += " take-const=" + guarded_visit([&] { return F::visit(Take{}, cx); }) + " then=" + guarded_visit([&] { return F::visit(Show{}, cx); });
    }
    o += vf::sfmt(" temporaries-destroyed=%d", int(g_live[F::side] == before));
    std::string out = "(not called)";
    o += " void=" + guarded_visit([&] { F::visit(VoidVis{&out}, x); return std::string("ok"); }) + ":" + out;
    out = "(not called)";
    o += " void-const=" + guarded_visit([&] { F::visit(VoidVis{&out}, cx); return std::string("ok"); }) + ":" + out;
    size_t cells[2] = {0, 0};
    o += " ref=" + guarded_visit([&] {
      size_t &r = F::visit(RefVis{cells}, x);
      r += 5;
      return std::string(&r == &cells[0] ? "cell0" : &r == &cells[1] ? "cell1" : "elsewhere");
    }) + vf::sfmt(":%zu,%zu", cells[0], cells[1]);
    o += " visit3=" + guarded_visit([&] { return F::visit(Show3{}, x, y, cx); });
    o += " visit2-mixed=" + guarded_visit([&] { return F::visit(Show2{}, cx, std::move(y)); });  // Show2 takes const references: nothing is moved
    return o;
  }

  template <size_t I> void emplace_alt(V &x, int k) {
    using T = typename F::template alt<I>;
    T *r = nullptr;  // emplace returns a reference to the new alternative
    if constexpr (I == 0) r = &x.template emplace<I>();
    else if constexpr (I == 1) r = &x.template emplace<I>(k != 0);
    else if constexpr (I == 2) r = &x.template emplace<I>(k ? INT64_MIN : int64_t(-7));
    else if constexpr (I == 3) r = &x.template emplace<I>(k ? UINT64_MAX : uint64_t(7));
    else if constexpr (I == 4) r = &x.template emplace<I>(k ? std::nan("") : 1.5);
    else if constexpr (I == 5) r = &x.template emplace<T>(k ? std::string("a longer string that does not fit the small buffer") : std::string());
    else r = &x.template emplace<T>(k ? 2 : 1);
    emplace_ret = (r != nullptr && r == F::template get_ifi<I>(&x)) ? 1 : 0;
  }
  template <size_t I> void assign_alt(V &x, int k) {  // converting assignment from a value of exactly the alternative's type
    using T = typename F::template alt<I>;
    if constexpr (I == 0) x = T{};
    else if constexpr (I == 1) x = (k != 0);
    else if constexpr (I == 2) x = k ? INT64_MIN : int64_t(-7);
    else if constexpr (I == 3) x = k ? UINT64_MAX : uint64_t(7);
    else if constexpr (I == 4) x = k ? std::nan("") : 1.5;
    else if constexpr (I == 5) x = k ? std::string("a longer string that does not fit the small buffer") : std::string();
    else x = T(k ? 2 : 1);
  }
  template <size_t I> void construct_alt(std::unique_ptr<V> &x, int k) {  // converting / in-place construction
    using T = typename F::template alt<I>;
    if constexpr (I == 0) x.reset(new V(T{}));
    else if constexpr (I == 1) x.reset(new V(k != 0));
    else if constexpr (I == 2) x.reset(new V(k ? INT64_MIN : int64_t(-7)));
    else if constexpr (I == 3) x.reset(new V(k ? UINT64_MAX : uint64_t(7)));
    else if constexpr (I == 4) x.reset(new V(k ? std::nan("") : 1.5));
    else if constexpr (I == 5) x.reset(new V(k ? std::string("a longer string that does not fit the small buffer") : std::string()));
    else x.reset(new V(T(k ? 2 : 1)));
  }

  // libstdc++ 12's std::variant::swap is wrong when exactly one operand is valueless_by_exception: with a valueless
  // *this it moves rhs's value into *this but leaves rhs holding the moved-from value instead of making it valueless
  // ([variant.swap] requires "exchanges values of rhs and *this").  The reference therefore performs the exchange the
  // standard describes by hand in that one case; the nostd side always runs its real swap.
  bool reference_swap_one_valueless(V &x, V &y) {
    if (F::side != 0 || x.valueless_by_exception() == y.valueless_by_exception()) return false;
    V &empty = x.valueless_by_exception() ? x : y, &full = x.valueless_by_exception() ? y : x;
    empty = std::move(full);
    g_armed = true;
    try { full.template emplace<Bomb<F::side>>(0); } catch (const BombEx &) {}
    g_armed = false;
    return true;
  }

  // returns true if the operation threw BombEx
  bool apply(int op, int t, int alt, int k) {
    V &x = *v[t], &y = *v[1 - t];
    emplace_ret = -1;
    try {
      switch (op) {
        case 0:  // emplace<alt>
          switch (alt) { case 0: emplace_alt<0>(x, k); break; case 1: emplace_alt<1>(x, k); break; case 2: emplace_alt<2>(x, k); break; case 3: emplace_alt<3>(x, k); break;
                         case 4: emplace_alt<4>(x, k); break; case 5: emplace_alt<5>(x, k); break; case 6: emplace_alt<6>(x, k); break; default: emplace_alt<7>(x, k); break; }
          break;
        case 1:  // x = value
          switch (alt) { case 0: assign_alt<0>(x, k); break; case 1: assign_alt<1>(x, k); break; case 2: assign_alt<2>(x, k); break; case 3: assign_alt<3>(x, k); break;
                         case 4: assign_alt<4>(x, k); break; case 5: assign_alt<5>(x, k); break; case 6: assign_alt<6>(x, k); break; default: assign_alt<7>(x, k); break; }
          break;
        case 2:  // construct from value
          switch (alt) { case 0: construct_alt<0>(v[t], k); break; case 1: construct_alt<1>(v[t], k); break; case 2: construct_alt<2>(v[t], k); break; case 3: construct_alt<3>(v[t], k); break;
                         case 4: construct_alt<4>(v[t], k); break; case 5: construct_alt<5>(v[t], k); break; case 6: construct_alt<6>(v[t], k); break; default: construct_alt<7>(v[t], k); break; }
          break;
        case 3: x = y; break;                               // copy assignment
        case 4: x = std::move(y); break;                    // move assignment
        case 5: { const V &self = x; x = self; break; }     // self copy assignment
        case 6: v[t].reset(new V(y)); break;                // copy construction
        case 7: v[t].reset(new V(std::move(y))); break;     // move construction
        case 8: if (!reference_swap_one_valueless(x, y)) x.swap(y); break;                        // swap
        case 9: if (!reference_swap_one_valueless(x, y)) { using std::swap; swap(x, y); } break;  // non-member swap
        case 10: v[t].reset(new V()); break;                // default construction
        case 11: g_armed = true; x.template emplace<Bomb<F::side>>(3); break;  // emplace throws: valueless
        case 12: g_armed = true; x = y; break;              // copy assignment whose copy throws
        case 13: g_armed = true; x = std::move(y); break;   // move assignment whose move throws
      }
    } catch (const BombEx &) {
      g_armed = false;
      return true;
    }
    g_armed = false;
    return false;
  }
};

struct VOp {
  int op, t, alt, k;
  std::string name;
};
const std::vector<VOp> &variant_ops() {
  static std::vector<VOp> ops;
  if (!ops.empty()) return ops;
  const char *vn[2] = {"a", "b"};
  for (int t = 0; t < 2; ++t) {
    for (int op = 0; op < 3; ++op)
      for (int alt = 0; alt < kAlts; ++alt)
        for (int k = 0; k < (alt == 0 ? 1 : 2); ++k)
          ops.push_back({op, t, alt, k, vf::sfmt("%s%s%s#%d", vn[t], op == 0 ? ".emplace:" : op == 1 ? "=value:" : "=V(value):", kAltName[alt], k)});
    const char *names[] = {"", "", "", "=copy(other)", "=move(other)", "=self", "=V(other)", "=V(move(other))", ".swap(other)", " std::swap", "=V()", ".emplace(throws)", "=copy(other)(throws)", "=move(other)(throws)"};
    for (int op = 3; op <= 13; ++op) ops.push_back({op, t, 0, 0, std::string(vn[t]) + names[op]});
  }
  return ops;
}

void run_variant(vf::Ctx &c) {
  g_live[0] = g_live[1] = 0;
  g_armed = false;
  int depth = atoi(c.opt().get("variant-depth", c.thorough() ? "4" : "3").c_str());
  std::string hist, last;
  {
    VWorld<StdV> ws;
    VWorld<NoV> wn;
    const std::vector<VOp> &ops = variant_ops();
    for (int d = 0; d < depth; ++d) {
      {
        vf::H128 h; h.add(0x7a); h.add((uint64_t)(depth - d)); h.add_str(wn.canon());
        c.prune_point(h);  // complete: a variant's future depends on the alternative held and its value only (both are in the string)
      }
      const VOp &o = ops[c.pick("variant-op", (int)ops.size())];
      if (o.op >= 12) {  // the throwing assignments need a Bomb in the source
        bool src_bomb = StdV::holds<Bomb<0>>(*ws.v[1 - o.t]);
        if (!src_bomb) { c.outcome("variant|n/a"); return; }
      }
      c.stage("variant");
      hist += " " + o.name;
      bool ts = ws.apply(o.op, o.t, o.alt, o.k);
      bool tn = wn.apply(o.op, o.t, o.alt, o.k);
      c.step();
      c.check(ts == tn, "C20:variant:exception", vf::sfmt("after%s: nostd::variant %s, std::variant %s", hist.c_str(), tn ? "propagated the exception" : "did not throw", ts ? "propagated it" : "did not throw"));
      std::string os = ws.observe(), on = wn.observe();
      const char *sig = o.op >= 11 ? "C20:variant:state-after-exception" : o.op >= 3 && o.op <= 9 ? "C20:variant:copy-move-swap" : "C20:variant:alternative-selection";
      c.check(os == on, sig, vf::sfmt("after%s: nostd::variant [%s] vs std::variant [%s]", hist.c_str(), on.c_str(), os.c_str()));
      c.state(vf::sfmt("variant|%d|", depth - d - 1) + on);
      last = on;
    }
  }
  c.check(g_live[0] == 0 && g_live[1] == 0, "C20:variant:leak", vf::sfmt("after%s and destruction: %d instances alive under nostd::variant, %d under std::variant", hist.c_str(), g_live[1], g_live[0]));
  c.outcome("variant|" + last);
  c.sample("variant:" + hist + " => " + last);
}

// ---- depth-1 part: in-place constructors and the const / rvalue / void / reference / ternary forms of get, get_if and visit --------------
// None of these depends on the history of the variant (a constructor builds a fresh object; the access forms only read the alternative
// held), so they are enumerated once per (way of construction, alternative, value) instead of after every history.
template <class F> struct InPlace {
  using V = typename F::V;
  template <size_t I> static V *make(bool by_index, int k) {
    using T = typename F::template alt<I>;
    auto mk = [&](auto &&...a) -> V * { return by_index ? F::template make_index<I>(a...) : F::template make_type<T>(a...); };
    if constexpr (I == 0) return mk();
    else if constexpr (I == 1) return mk(k != 0);
    else if constexpr (I == 2) return mk(k ? INT64_MIN : int64_t(-7));
    else if constexpr (I == 3) return mk(k ? UINT64_MAX : uint64_t(7));
    else if constexpr (I == 4) return mk(k ? std::nan("") : 1.5);
    else if constexpr (I == 5) return k ? mk(size_t(60), 'x') : mk();  // several constructor arguments / none
    else return mk(k ? 2 : 1);                                         // explicit constructor of the alternative
  }
  static V *make_alt(int alt, bool by_index, int k) {
    switch (alt) {
      case 0: return make<0>(by_index, k); case 1: return make<1>(by_index, k); case 2: return make<2>(by_index, k); case 3: return make<3>(by_index, k);
      case 4: return make<4>(by_index, k); case 5: return make<5>(by_index, k); case 6: return make<6>(by_index, k); default: return make<7>(by_index, k);
    }
  }
};

enum { VF_EMPLACE, VF_IN_PLACE_TYPE, VF_IN_PLACE_INDEX, VF_IN_PLACE_ILIST, VF_VALUELESS, VF_IN_PLACE_THROWS, VF_N };
const char *const kFormHow[VF_N] = {"emplace on V()", "V(in_place_type<T>, args...)", "V(in_place_index<I>, args...)", "V(in_place, initializer_list)", "valueless by exception", "in-place construction that throws"};

struct FormsResult {
  std::string basic, forms;
  bool threw = false;
};
template <class F> FormsResult forms_side(int how, int alt, int k, int alt2) {
  FormsResult r;
  {
    VWorld<F> w;
    try {
      switch (how) {
        case VF_EMPLACE: w.apply(0, 0, alt, k); break;
        case VF_IN_PLACE_TYPE: w.v[0].reset(InPlace<F>::make_alt(alt, false, k)); break;
        case VF_IN_PLACE_INDEX: w.v[0].reset(InPlace<F>::make_alt(alt, true, k)); break;
        case VF_IN_PLACE_ILIST: w.v[0].reset(k ? F::template make_index_il<5>(std::initializer_list<char>{'i', 'l', '\0', 'z'}) : F::template make_type_il<std::string>(std::initializer_list<char>{'i', 'l', '\0', 'z'})); break;
        case VF_VALUELESS: w.apply(0, 0, 5, 1); w.apply(11, 0, 0, 0); break;
        default: g_armed = true; w.v[0].reset(InPlace<F>::make_alt(7, k != 0, 1)); break;  // Bomb(int) throws: no variant is constructed, the old one stays
      }
    } catch (const BombEx &) {
      r.threw = true;
    }
    g_armed = false;
    w.apply(0, 1, alt2, 1);
    w.emplace_ret = -1;
    r.basic = w.describe(*w.v[0]);
    r.forms = w.describe_forms(*w.v[0], *w.v[1]);
  }
  r.forms += vf::sfmt(" live-after-destruction=%d", g_live[F::side]);
  return r;
}

void run_variant_forms(vf::Ctx &c) {
  g_live[0] = g_live[1] = 0;
  g_armed = false;
  int how = c.pick("variant-how", VF_N);
  bool per_alt = how <= VF_IN_PLACE_INDEX;
  int alt = per_alt ? c.pick("variant-alt", kAlts) : 5;
  int k = (per_alt && alt == 0) ? 0 : c.pick("variant-value", 2);
  int alt2 = c.pick("variant-other-alt", kAlts);
  c.stage("variant:forms");
  std::string what = std::string(kFormHow[how]) + (per_alt ? vf::sfmt(" of %s#%d", kAltName[alt], k) : vf::sfmt(" #%d", k)) + vf::sfmt(", other variant holds %s", kAltName[alt2]);
  FormsResult rs = forms_side<StdV>(how, alt, k, alt2);
  FormsResult rn = forms_side<NoV>(how, alt, k, alt2);
  c.step();
  c.check(rs.threw == rn.threw, "C20:variant:exception", what + vf::sfmt(": nostd::variant %s, std::variant %s", rn.threw ? "propagated the exception" : "did not throw", rs.threw ? "propagated it" : "did not throw"));
  const char *sig = how == VF_EMPLACE ? "C20:variant:alternative-selection" : how == VF_VALUELESS ? "C20:variant:state-after-exception" : "C20:variant:in-place-construction";
  c.check(rs.basic == rn.basic, sig, what + ": nostd::variant [" + rn.basic + "] vs std::variant [" + rs.basic + "]");
  c.check(rs.forms == rn.forms, "C20:variant:access-forms", what + ": const / rvalue / void / reference / ternary forms of get, get_if, visit: nostd::variant [" + rn.forms + "] vs std::variant [" + rs.forms + "]");
  c.check(g_live[0] == 0 && g_live[1] == 0, "C20:variant:leak", what + vf::sfmt(": after destruction %d instances alive under nostd::variant, %d under std::variant", g_live[1], g_live[0]));
  c.state(vf::sfmt("variant-forms|%d|", how) + rn.forms);
  c.outcome(vf::sfmt("variant-forms|%d|", how) + rn.forms);
  c.sample("variant " + what + " => " + rn.forms);
}

void setup(vf::Options &o) {
  o.split_depth = 3;
  o.deadline_s = o.thorough ? 900 : 100;
  o.table_bits = 22;
  const std::string alphabet("ab\0\xff", 4);
  size_t maxlen = o.thorough ? 3 : 2;
  g_strs = {""};
  for (size_t b = 0, e = 1, len = 1; len <= maxlen; ++len) {
    for (size_t i = b; i < e; ++i)
      for (char ch : alphabet) g_strs.push_back(g_strs[i] + ch);
    b = e;
    e = g_strs.size();
  }
}

void run(vf::Ctx &c) {
  switch (c.pick("type", 7)) {
    case 0: run_string_view(c); break;
    case 1: run_span(c); break;
    case 2: run_function_ref(c); break;
    case 3: run_variant(c); break;
    case 4: run_span_mismatch(c); break;
    case 5: run_utility(c); break;
    default: run_variant_forms(c); break;
  }
}

}  // namespace

VF_MAIN("c20_values", "C20", setup, run)
