// C08 (a): metric series are keyed by the VALUE of the (filtered) attribute set (Engine B).
// For pairs of attribute lists (typed values, every key order, duplicates), every allow-list and three key
// storage shapes, the real FilteredOrderedAttributeMap / hash / AttributesHashMap / SyncMetricStorage (and
// MeterProvider + View) are compared with a std::map reference: equal-as-maps <=> same series, equal =>
// equal hash, the filter removes exactly the keys that are not allowed, stored values are owned copies.
#include <map>
#include <set>

#include <opentelemetry/common/key_value_iterable_view.h>
#include <opentelemetry/context/context.h>
#include <opentelemetry/metrics/meter.h>
#include <opentelemetry/metrics/sync_instruments.h>
#include <opentelemetry/sdk/common/global_log_handler.h>
#include <opentelemetry/sdk/metrics/aggregation/sum_aggregation.h>
#include <opentelemetry/sdk/metrics/data/metric_data.h>
#include <opentelemetry/sdk/metrics/data/point_data.h>
#include <opentelemetry/sdk/metrics/export/metric_producer.h>
#include <opentelemetry/sdk/metrics/meter_provider.h>
#include <opentelemetry/sdk/metrics/metric_reader.h>
#include <opentelemetry/sdk/metrics/state/attributes_hashmap.h>
#include <opentelemetry/sdk/metrics/state/filtered_ordered_attribute_map.h>
#include <opentelemetry/sdk/metrics/state/metric_collector.h>
#include <opentelemetry/sdk/metrics/state/sync_metric_storage.h>
#include <opentelemetry/sdk/metrics/view/attributes_processor.h>
#include <opentelemetry/sdk/metrics/view/instrument_selector.h>
#include <opentelemetry/sdk/metrics/view/meter_selector.h>
#include <opentelemetry/sdk/metrics/view/view.h>

#include "seq/vf_seq.h"
#include "vf_clock.h"

namespace nostd = opentelemetry::nostd;
namespace sm = opentelemetry::sdk::metrics;
namespace sc = opentelemetry::sdk::common;
using opentelemetry::common::AttributeValue;

#define CHECK(ctx, cond, sig, msg) do { if (!(cond)) (ctx).fail((sig), (msg)); } while (0)

namespace {

// ---------------------------------------------------------------------------------------------
// typed values
// ---------------------------------------------------------------------------------------------
enum VK { vB, vI32, vI64, vU32, vU64, vD, vCSTR, vSV, vAB, vAI32, vAI64, vAU32, vAU64, vAU8, vAD, vASV };
struct TV {
  VK k;
  int64_t n = 0;                 // bool / integer payload
  double d = 0;                  // double payload
  std::string s;                 // string payload
  std::vector<int64_t> an;       // bool / integer / byte array payload
  std::vector<double> ad;        // double array
  std::vector<std::string> as;   // string array
  std::string name;              // for messages
};
TV mk(VK k, int64_t n, const char *name) { TV t; t.k = k; t.n = n; t.name = name; return t; }
TV mkd(double d, const char *name) { TV t; t.k = vD; t.d = d; t.name = name; return t; }
TV mks(VK k, const std::string &s, const char *name) { TV t; t.k = k; t.s = s; t.name = name; return t; }
TV mkan(VK k, std::vector<int64_t> v, const char *name) { TV t; t.k = k; t.an = std::move(v); t.name = name; return t; }
TV mkad(std::vector<double> v, const char *name) { TV t; t.k = vAD; t.ad = std::move(v); t.name = name; return t; }
TV mkas(std::vector<std::string> v, const char *name) { TV t; t.k = vASV; t.as = std::move(v); t.name = name; return t; }

std::string hexd(double d) { return vf::sfmt("%a", d); }
std::string lp(const std::string &s) { return vf::sfmt("%zu:", s.size()) + s; }  // length-prefixed: unambiguous

// strict canonical form: the OWNED type the value must be stored as + its content
std::string strict(const TV &t) {
  std::string o;
  switch (t.k) {
    case vB: return vf::sfmt("bool:%d", (int)t.n);
    case vI32: return vf::sfmt("i32:%lld", (long long)t.n);
    case vI64: return vf::sfmt("i64:%lld", (long long)t.n);
    case vU32: return vf::sfmt("u32:%lld", (long long)t.n);
    case vU64: return vf::sfmt("u64:%lld", (long long)t.n);
    case vD: return "f64:" + hexd(t.d);
    case vCSTR: case vSV: return "str:" + lp(t.s);
    case vAB: o = "bool[]:"; break;
    case vAI32: o = "i32[]:"; break;
    case vAI64: o = "i64[]:"; break;
    case vAU32: o = "u32[]:"; break;
    case vAU64: o = "u64[]:"; break;
    case vAU8: o = "u8[]:"; break;
    case vAD: o = "f64[]:"; for (double d : t.ad) o += hexd(d) + ","; return o;
    case vASV: o = "str[]:"; for (auto &s : t.as) o += lp(s) + ","; return o;
  }
  for (auto n : t.an) o += vf::sfmt("%lld,", (long long)n);
  return o;
}
// loose canonical form: values whose loose forms differ are different under every reading of
// "equal as key-to-value maps"; numbers of different C++ types, +0.0/-0.0 and empty arrays of different
// element types coincide here (the statement does not decide them: don't-care)
bool integral(double d) { return d == (double)(int64_t)d && d > -1e15 && d < 1e15; }
std::string loose(const TV &t) {
  std::string o;
  switch (t.k) {
    case vB: return vf::sfmt("bool:%d", (int)t.n);
    case vI32: case vI64: case vU32: case vU64: return vf::sfmt("num:%lld", (long long)t.n);
    case vD: return integral(t.d) ? vf::sfmt("num:%lld", (long long)t.d) : "f64:" + hexd(t.d);
    case vCSTR: case vSV: return "str:" + lp(t.s);
    case vAB: if (t.an.empty()) return "[]"; o = "bool[]:"; break;
    case vAI32: case vAI64: case vAU32: case vAU64: case vAU8: if (t.an.empty()) return "[]"; o = "num[]:"; break;
    case vAD: {
      if (t.ad.empty()) return "[]";
      bool all = true; for (double d : t.ad) all &= integral(d);
      o = all ? "num[]:" : "f64[]:";
      for (double d : t.ad) o += all ? vf::sfmt("%lld,", (long long)d) : hexd(d) + ",";
      return o;
    }
    case vASV: if (t.as.empty()) return "[]"; o = "str[]:"; for (auto &s : t.as) o += lp(s) + ","; return o;
  }
  for (auto n : t.an) o += vf::sfmt("%lld,", (long long)n);
  return o;
}

// canonical form of what the SDK stored
struct OwnedCanon {
  std::string operator()(bool v) const { return vf::sfmt("bool:%d", (int)v); }
  std::string operator()(int32_t v) const { return vf::sfmt("i32:%lld", (long long)v); }
  std::string operator()(uint32_t v) const { return vf::sfmt("u32:%lld", (long long)v); }
  std::string operator()(int64_t v) const { return vf::sfmt("i64:%lld", (long long)v); }
  std::string operator()(uint64_t v) const { return vf::sfmt("u64:%lld", (long long)v); }
  std::string operator()(double v) const { return "f64:" + hexd(v); }
  std::string operator()(const std::string &v) const { return "str:" + lp(v); }
  std::string operator()(const std::vector<bool> &v) const { std::string o = "bool[]:"; for (bool b : v) o += vf::sfmt("%d,", (int)b); return o; }
  std::string operator()(const std::vector<int32_t> &v) const { return ints("i32[]:", v); }
  std::string operator()(const std::vector<uint32_t> &v) const { return ints("u32[]:", v); }
  std::string operator()(const std::vector<int64_t> &v) const { return ints("i64[]:", v); }
  std::string operator()(const std::vector<uint64_t> &v) const { return ints("u64[]:", v); }
  std::string operator()(const std::vector<uint8_t> &v) const { return ints("u8[]:", v); }
  std::string operator()(const std::vector<double> &v) const { std::string o = "f64[]:"; for (double d : v) o += hexd(d) + ","; return o; }
  std::string operator()(const std::vector<std::string> &v) const { std::string o = "str[]:"; for (auto &s : v) o += lp(s) + ","; return o; }
  template <class V> static std::string ints(const char *tag, const V &v) { std::string o = tag; for (auto n : v) o += vf::sfmt("%lld,", (long long)n); return o; }
};
std::string canon_real(const std::map<std::string, sc::OwnedAttributeValue> &m) {
  std::string o;
  for (auto &kv : m) o += lp(kv.first) + "=" + nostd::visit(OwnedCanon(), kv.second) + ";";
  return o;
}

// ---------------------------------------------------------------------------------------------
// caller-side storage of one attribute list: every key, string and array lives in an exact-size heap
// block; after the API call returns the blocks are overwritten with different valid content (the SDK
// must have made owned copies) and stay allocated until the execution ends
// ---------------------------------------------------------------------------------------------
enum KeyShape { kNulTerminated = 0, kSlice = 1, kExactHeap = 2 };
const char *kShapeName[3] = {"nul-terminated", "slice-of-longer-buffer", "exact-size-heap-block"};

struct Entry { std::string key; const TV *v; };
using AList = std::vector<Entry>;

class Backing {
 public:
  ~Backing() { for (void *p : blocks_) free(p); }
  // returns a pointer to an exact-size copy of [p, p+n)
  template <class T> T *block(const T *p, size_t n) {
    T *b = static_cast<T *>(malloc(n * sizeof(T) ? n * sizeof(T) : 1));
    if (n) memcpy(b, p, n * sizeof(T));
    blocks_.push_back(b);
    sizes_.push_back(n * sizeof(T));
    is_bool_.push_back(std::is_same<T, bool>::value);
    return b;
  }
  nostd::string_view key(const std::string &k, KeyShape shape) {
    if (shape == kExactHeap) return nostd::string_view(block(k.data(), k.size()), k.size());
    std::string buf = k + (shape == kSlice ? "b" : "");  // slice: the view is followed by another key character, then NUL
    char *p = block(buf.c_str(), buf.size() + 1);
    return nostd::string_view(p, k.size());
  }
  AttributeValue value(const TV &t) {
    switch (t.k) {
      case vB: return AttributeValue(t.n != 0);
      case vI32: return AttributeValue((int32_t)t.n);
      case vI64: return AttributeValue((int64_t)t.n);
      case vU32: return AttributeValue((uint32_t)t.n);
      case vU64: return AttributeValue((uint64_t)t.n);
      case vD: return AttributeValue(t.d);
      case vCSTR: return AttributeValue((const char *)block(t.s.c_str(), t.s.size() + 1));
      case vSV: return AttributeValue(nostd::string_view(block(t.s.data(), t.s.size()), t.s.size()));
      case vAB: { std::vector<char> tmp(t.an.begin(), t.an.end()); bool *p = block(reinterpret_cast<const bool *>(tmp.data()), tmp.size()); return AttributeValue(nostd::span<const bool>(p, tmp.size())); }
      case vAI32: return arr<int32_t>(t.an);
      case vAI64: return arr<int64_t>(t.an);
      case vAU32: return arr<uint32_t>(t.an);
      case vAU64: return arr<uint64_t>(t.an);
      case vAU8: return arr<uint8_t>(t.an);
      case vAD: { double *p = block(t.ad.data(), t.ad.size()); return AttributeValue(nostd::span<const double>(p, t.ad.size())); }
      case vASV: {
        std::vector<nostd::string_view> views;
        for (auto &s : t.as) views.emplace_back(block(s.data(), s.size()), s.size());
        nostd::string_view *p = block(views.data(), views.size());
        sv_arrays_.emplace_back(p, views.size());
        return AttributeValue(nostd::span<const nostd::string_view>(p, views.size()));
      }
    }
    return AttributeValue(false);
  }
  // overwrite every caller buffer with a different valid value of the same size
  void scribble() {
    std::set<void *> svs;
    for (auto &a : sv_arrays_) svs.insert(a.first);
    for (size_t i = 0; i < blocks_.size(); ++i) {
      if (svs.count(blocks_[i])) continue;  // arrays of views keep pointing at (scribbled) strings
      char *p = static_cast<char *>(blocks_[i]);
      for (size_t k = 0; k < sizes_[i]; ++k) p[k] = is_bool_[i] ? (p[k] ^ 1) : (p[k] ? 'Z' : 0);  // keeps C strings terminated, bools valid
    }
  }

 private:
  template <class T> AttributeValue arr(const std::vector<int64_t> &v) {
    std::vector<T> tmp(v.begin(), v.end());
    T *p = block(tmp.data(), tmp.size());
    return AttributeValue(nostd::span<const T>(p, tmp.size()));
  }
  std::vector<void *> blocks_;
  std::vector<size_t> sizes_;
  std::vector<bool> is_bool_;
  std::vector<std::pair<nostd::string_view *, size_t>> sv_arrays_;
};

using KVVec = std::vector<std::pair<nostd::string_view, AttributeValue>>;
KVVec materialize(Backing &bk, const AList &l, KeyShape shape) {
  KVVec v;
  for (auto &e : l) v.emplace_back(bk.key(e.key, shape), bk.value(*e.v));
  return v;
}

// ---------------------------------------------------------------------------------------------
// reference: filter, last wins
// ---------------------------------------------------------------------------------------------
using Model = std::map<std::string, const TV *>;
Model model_of(const AList &l, const std::set<std::string> *allow) {
  Model m;
  for (auto &e : l)
    if (!allow || allow->count(e.key)) m[e.key] = e.v;
  return m;
}
std::string strict(const Model &m) { std::string o; for (auto &kv : m) o += lp(kv.first) + "=" + strict(*kv.second) + ";"; return o; }
std::string loose(const Model &m) { std::string o; for (auto &kv : m) o += lp(kv.first) + "=" + loose(*kv.second) + ";"; return o; }
std::string show(const AList &l) {
  std::string o = "[";
  for (size_t i = 0; i < l.size(); ++i) o += (i ? ", " : "") + vfq::printable(l[i].key) + "=" + l[i].v->name;
  return o + "]";
}
std::string show(const std::set<std::string> *allow) {
  if (!allow) return "no filter";
  std::string o = "allow{";
  for (auto &k : *allow) o += vfq::printable(k) + " ";
  return o + "}";
}

// ---------------------------------------------------------------------------------------------
// alphabets
// ---------------------------------------------------------------------------------------------
std::vector<TV> g_typed;   // every AttributeValue alternative, with the pairs the statement is about
std::vector<TV> g_small;   // small alphabet for multi-key lists
std::vector<std::string> g_keys = {"a", "b", "c"};
std::vector<std::string> g_nulkeys = {"a", std::string("a\0b", 3), "ab"};
int g_n1 = 3, g_n2 = 2;

void build_alphabets() {
  g_typed = {
      mk(vB, 1, "true"), mk(vB, 0, "false"),
      mk(vI32, 1, "int32(1)"), mk(vI64, 1, "int64(1)"), mk(vU32, 1, "uint32(1)"), mk(vU64, 1, "uint64(1)"), mk(vI32, 2, "int32(2)"), mk(vI64, 2, "int64(2)"),
      mk(vI32, 0, "int32(0)"), mk(vI64, -1, "int64(-1)"),
      mkd(0.0, "0.0"), mkd(-0.0, "-0.0"), mkd(1.0, "1.0"), mkd(0.5, "0.5"),
      mks(vCSTR, "x", "cstr\"x\""), mks(vSV, "x", "sv\"x\""), mks(vSV, "y", "sv\"y\""), mks(vCSTR, "", "cstr\"\""), mks(vSV, "", "sv\"\""),
      mks(vSV, std::string("x\0z", 3), "sv\"x\\0z\""), mks(vSV, "1", "sv\"1\""), mks(vCSTR, "true", "cstr\"true\""),
      mkan(vAB, {}, "bool[]{}"), mkan(vAB, {1}, "bool[]{true}"), mkan(vAB, {1, 0}, "bool[]{true,false}"),
      mkan(vAI32, {}, "int32[]{}"), mkan(vAI32, {1}, "int32[]{1}"), mkan(vAI64, {}, "int64[]{}"), mkan(vAI64, {1}, "int64[]{1}"), mkan(vAI64, {1, 2}, "int64[]{1,2}"), mkan(vAI64, {2, 1}, "int64[]{2,1}"),
      mkan(vAU32, {}, "uint32[]{}"), mkan(vAU32, {1}, "uint32[]{1}"), mkan(vAU64, {}, "uint64[]{}"), mkan(vAU64, {1}, "uint64[]{1}"), mkan(vAU8, {}, "bytes{}"), mkan(vAU8, {1}, "bytes{1}"),
      mkad({}, "double[]{}"), mkad({0.0}, "double[]{0.0}"), mkad({-0.0}, "double[]{-0.0}"), mkad({0.5}, "double[]{0.5}"),
      mkas({}, "string[]{}"), mkas({"x"}, "string[]{x}"), mkas({"x", "y"}, "string[]{x,y}"), mkas({"y", "x"}, "string[]{y,x}"), mkas({""}, "string[]{\"\"}"), mkas({"xy"}, "string[]{xy}"),
  };
  g_small = {mk(vI32, 1, "int32(1)"), mk(vI32, 2, "int32(2)"), mks(vSV, "x", "sv\"x\"")};
}

AList pick_list(vf::Ctx &c, const char *label, const std::vector<std::string> &keys, const std::vector<TV> &vals, int maxlen) {
  AList l;
  int E = (int)(keys.size() * vals.size());
  for (int i = 0; i < maxlen; ++i) {
    int ch = c.pick(label, E + 1);  // alternative 0 ends the list
    if (ch == 0) break;
    --ch;
    l.push_back({keys[ch / vals.size()], &vals[ch % vals.size()]});
  }
  return l;
}

// ---------------------------------------------------------------------------------------------
// real-side helpers
// ---------------------------------------------------------------------------------------------
class Handle : public sm::CollectorHandle {
 public:
  explicit Handle(sm::AggregationTemporality t) : t_(t) {}
  sm::AggregationTemporality GetAggregationTemporality(sm::InstrumentType) noexcept override { return t_; }
 private:
  sm::AggregationTemporality t_;
};
class PullReader : public sm::MetricReader {
 public:
  explicit PullReader(bool cumulative = false) : cumulative_(cumulative) {}
  sm::AggregationTemporality GetAggregationTemporality(sm::InstrumentType) const noexcept override { return cumulative_ ? sm::AggregationTemporality::kCumulative : sm::AggregationTemporality::kDelta; }
 private:
  bool cumulative_;
  bool OnForceFlush(std::chrono::microseconds) noexcept override { return true; }
  bool OnShutDown(std::chrono::microseconds) noexcept override { return true; }
};

using Series = std::vector<std::pair<std::string, int64_t>>;  // canonical attributes, value
void add_points(Series &out, const sm::MetricData &md) {
  for (auto &pa : md.point_data_attr_) {
    int64_t v = -1;
    if (nostd::holds_alternative<sm::SumPointData>(pa.point_data)) {
      auto &sp = nostd::get<sm::SumPointData>(pa.point_data);
      if (nostd::holds_alternative<int64_t>(sp.value_)) v = nostd::get<int64_t>(sp.value_);
    }
    out.emplace_back(canon_real(pa.attributes), v);
  }
}

struct Case {
  AList l1, l2;
  const std::set<std::string> *allow;  // nullptr: DefaultAttributesProcessor
  KeyShape shape;
  bool cumulative = false;  // end-to-end part only: temporality of the reader (cumulative: the series pass the temporal merge, keyed by the stored sets)
  std::string desc() const { return show(l1) + " vs " + show(l2) + ", " + show(allow) + ", keys " + kShapeName[shape]; }
};

std::unique_ptr<sm::AttributesProcessor> make_processor(const std::set<std::string> *allow) {
  if (!allow) return std::unique_ptr<sm::AttributesProcessor>(new sm::DefaultAttributesProcessor());
  std::unordered_map<std::string, bool> m;
  for (auto &k : *allow) m[k] = true;
  return std::unique_ptr<sm::AttributesProcessor>(new sm::FilteringAttributesProcessor(std::move(m)));
}

// The filter must look at the key's bytes [data, data+size) only.  Two probes with defined behaviour, run
// before anything that could read out of bounds; a listed known finding ends the execution quietly.
bool probe_filter(vf::Ctx &c, const Case &cs) {
  if (!cs.allow) return true;
  bool has_nul = false;
  for (auto *l : {&cs.l1, &cs.l2}) for (auto &e : *l) has_nul |= e.key.find('\0') != std::string::npos;
  if (cs.shape != kNulTerminated) {
    c.stage("probe(slice-key)");
    sm::FilteringAttributesProcessor p(std::unordered_map<std::string, bool>{{"a", true}});
    char buf[3] = {'a', 'b', 0};
    if (!p.isPresent(nostd::string_view(buf, 1)) || p.isPresent(nostd::string_view(buf + 1, 0))) {
      if (c.report("C08:filter:key-read-past-size", "FilteringAttributesProcessor{a}.isPresent(string_view(\"ab\",1)) is false: the key view is read as a C string beyond its size")) return false;
    }
  }
  if (has_nul) {
    c.stage("probe(nul-key)");
    sm::FilteringAttributesProcessor p(std::unordered_map<std::string, bool>{{"a", true}});
    sm::FilteringAttributesProcessor q(std::unordered_map<std::string, bool>{{std::string("a\0b", 3), true}});
    char buf[4] = {'a', 0, 'b', 0};
    if (p.isPresent(nostd::string_view(buf, 3)) || !q.isPresent(nostd::string_view(buf, 3))) {
      if (c.report("C08:filter:key-truncated-at-nul", "FilteringAttributesProcessor{a}.isPresent(\"a\\0b\") is true (or {a\\0b} does not admit it): the key view is cut at an embedded NUL")) return false;
    }
  }
  return true;
}

void run_case(vf::Ctx &c, const Case &cs, bool through_meter) {
  if (!probe_filter(c, cs)) return;
  Model m1 = model_of(cs.l1, cs.allow), m2 = model_of(cs.l2, cs.allow);
  std::string s1 = strict(m1), s2 = strict(m2);
  bool must_equal = s1 == s2;
  bool must_differ = loose(m1) != loose(m2);
  std::unique_ptr<sm::AttributesProcessor> proc = make_processor(cs.allow);
  Backing bk;
  KVVec kv1 = materialize(bk, cs.l1, cs.shape), kv2 = materialize(bk, cs.l2, cs.shape);
  opentelemetry::common::KeyValueIterableView<KVVec> it1(kv1), it2(kv2);

  if (!through_meter) {
    // ---- the map, its hash, the processor ----
    c.stage("FilteredOrderedAttributeMap");
    sm::MetricAttributes a1(it1, proc.get()), a2(it2, proc.get());
    c.step(2);
    CHECK(c, canon_real(a1) == s1, "C08:map:content", "the attribute map built from " + show(cs.l1) + " with " + show(cs.allow) + " (keys " + kShapeName[cs.shape] + ") holds {" + vfq::printable(canon_real(a1), 200) + "}, expected {" + vfq::printable(s1, 200) + "}");
    CHECK(c, canon_real(a2) == s2, "C08:map:content", "the attribute map built from " + show(cs.l2) + " with " + show(cs.allow) + " (keys " + kShapeName[cs.shape] + ") holds {" + vfq::printable(canon_real(a2), 200) + "}, expected {" + vfq::printable(s2, 200) + "}");
    CHECK(c, a1.GetHash() == sc::GetHashForAttributeMap(a1), "C08:map:stale-hash", "cached hash differs from the hash of the content; " + cs.desc());
    c.stage("process");
    sm::MetricAttributes p1 = proc->process(it1);
    c.step();
    CHECK(c, canon_real(p1) == s1, "C08:process:content", "process(" + show(cs.l1) + ") with " + show(cs.allow) + " gives {" + vfq::printable(canon_real(p1), 200) + "}, expected {" + vfq::printable(s1, 200) + "}");
    CHECK(c, p1 == a1 && p1.GetHash() == a1.GetHash(), "C08:process:differs-from-constructor", "process() and the filtering constructor disagree; " + cs.desc());
    for (auto &e : cs.l1) {
      bool want = !cs.allow || cs.allow->count(e.key);
      Backing kb;
      CHECK(c, proc->isPresent(kb.key(e.key, cs.shape)) == want, "C08:filter:isPresent", "isPresent(" + vfq::printable(e.key) + ") != " + (want ? "true" : "false") + " with " + show(cs.allow) + ", keys " + kShapeName[cs.shape]);
    }
    bool eq = a1 == a2, heq = a1.GetHash() == a2.GetHash() && sm::MetricAttributesHash()(a1) == sm::MetricAttributesHash()(a2);
    if (must_equal) {
      CHECK(c, eq, "C08:equal-maps-compare-unequal", "maps equal as key-to-value maps compare unequal; " + cs.desc());
      CHECK(c, heq, "C08:equal-maps-hash-differently", "equal maps hash differently; " + cs.desc());
    }
    if (must_differ) CHECK(c, !eq, "C08:different-maps-compare-equal", "different maps compare equal; " + cs.desc());
    if (eq) CHECK(c, heq, "C08:equal-maps-hash-differently", "maps that compare equal hash differently; " + cs.desc());

    // ---- the series table ----
    c.stage("AttributesHashMap");
    sm::AttributesHashMap table;
    auto mkagg = []() { return std::unique_ptr<sm::Aggregation>(new sm::LongSumAggregation(true)); };
    sm::Aggregation *g1 = table.GetOrSetDefault(it1, proc.get(), mkagg);
    sm::Aggregation *g2 = table.GetOrSetDefault(it2, proc.get(), mkagg);
    sm::Aggregation *g1b = table.GetOrSetDefault(it1, proc.get(), mkagg);
    c.step(3);
    CHECK(c, g1 == g1b, "C08:table:same-list-different-series", "the same list found a different series the second time; " + cs.desc());
    if (must_equal) CHECK(c, g1 == g2 && table.Size() == 1, "C08:table:equal-sets-different-series", "equal attribute sets got different series; " + cs.desc());
    if (must_differ) CHECK(c, g1 != g2 && table.Size() == 2, "C08:table:different-sets-same-series", "different attribute sets share a series; " + cs.desc());
    CHECK(c, table.Has(a1) && table.Has(a2) && table.Get(a1) == g1 && table.Get(a2) == g2, "C08:table:lookup", "Has/Get by MetricAttributes disagree with GetOrSetDefault; " + cs.desc());
  }

  // ---- end to end: record 1 with list 1 and 2 with list 2, collect ----
  Series got;
  if (!through_meter) {
    c.stage("SyncMetricStorage");
    sm::InstrumentDescriptor desc = {"n", "d", "u", sm::InstrumentType::kCounter, sm::InstrumentValueType::kLong};
    sm::SyncMetricStorage storage(desc, sm::AggregationType::kSum, proc.get(), nullptr);
    opentelemetry::context::Context ctx{};
    storage.RecordLong(1, it1, ctx);
    storage.RecordLong(2, it2, ctx);
    bk.scribble();
    c.step(2);
    std::shared_ptr<sm::CollectorHandle> col(new Handle(sm::AggregationTemporality::kDelta));
    std::vector<std::shared_ptr<sm::CollectorHandle>> cols{col};
    auto t0 = std::chrono::system_clock::now();
    storage.Collect(col.get(), cols, t0, std::chrono::system_clock::now(), [&](sm::MetricData md) { add_points(got, md); return true; });
    c.step();
  } else {
    c.stage("Meter");
    sm::MeterProvider mp;
    std::shared_ptr<PullReader> reader(new PullReader(cs.cumulative));
    mp.AddMetricReader(reader);
    std::unique_ptr<sm::View> view(new sm::View("cv", "view", "u", sm::AggregationType::kSum, nullptr, make_processor(cs.allow)));
    std::unique_ptr<sm::InstrumentSelector> is(new sm::InstrumentSelector(sm::InstrumentType::kCounter, "n", "u"));
    std::unique_ptr<sm::MeterSelector> ms(new sm::MeterSelector("m", "1", "s"));
    mp.AddView(std::move(is), std::move(ms), std::move(view));
    auto meter = mp.GetMeter("m", "1", "s");
    auto counter = meter->CreateUInt64Counter("n", "d", "u");
    opentelemetry::context::Context ctx{};
    counter->Add(1, it1, ctx);
    counter->Add(2, it2, ctx);
    bk.scribble();
    c.step(2);
    reader->Collect([&](sm::ResourceMetrics &rm) {
      for (auto &smd : rm.scope_metric_data_) for (auto &md : smd.metric_data_) add_points(got, md);
      return true;
    });
    c.step();
  }
  std::sort(got.begin(), got.end());
  std::string gs;
  for (auto &p : got) gs += "{" + vfq::printable(p.first, 120) + "}=" + vf::sfmt("%lld ", (long long)p.second);
  const char *seam = through_meter ? (cs.cumulative ? "meter-cumulative" : "meter") : "storage";
  Series want;
  if (must_equal) want = {{s1, 3}};
  else { want = {{s1, 1}, {s2, 2}}; std::sort(want.begin(), want.end()); }
  if (must_equal || must_differ) {
    if (got != want) {
      const char *what = got.size() > want.size() ? "equal-sets-split" : got.size() < want.size() ? "different-sets-merged" : "content";
      c.fail(vf::sfmt("C08:%s:%s", seam, what), "recording 1 with " + show(cs.l1) + " and 2 with " + show(cs.l2) + " (" + show(cs.allow) + ", keys " + kShapeName[cs.shape] + ") reports " + gs);
    }
  } else {
    // don't-care: one series {3} or two series {1,2}; the attributes must still be those of the lists
    bool ok = (got.size() == 1 && got[0].second == 3 && (got[0].first == s1 || got[0].first == s2)) || got == want;
    CHECK(c, ok, vf::sfmt("C08:%s:content", seam), "recording 1 with " + show(cs.l1) + " and 2 with " + show(cs.l2) + " (" + show(cs.allow) + ") reports " + gs);
  }
  c.state(std::string(seam) + "|" + gs);
  c.outcome(std::string(seam) + vf::sfmt("|%zu|%d%d|", got.size(), (int)must_equal, (int)must_differ) + (got.empty() ? "" : got[0].first));
  static int ns = 0;
  if (ns < 2) { ++ns; c.sample(cs.desc() + " => " + gs); }
}

// ---------------------------------------------------------------------------------------------
// part 4: the EMPTY attribute set, however it comes about, is one value
// ---------------------------------------------------------------------------------------------
using IL = std::initializer_list<std::pair<nostd::string_view, AttributeValue>>;
const char *kEmptyWay[] = {"default-constructed MetricAttributes{}", "copy of a default-constructed map", "default-constructed map move-assigned over a non-empty one",
                           "empty iterable, no processor", "empty iterable, DefaultAttributesProcessor", "empty iterable, allow{region}",
                           "empty initializer list", "empty initializer list, allow{region}", "initializer list [a=1] filtered by allow{region}",
                           "iterable [a=1,b=x] filtered by allow{region} (constructor)", "iterable [a=1,b=x] filtered by allow{region} (process())",
                           "iterable [a=1] filtered by allow{} (constructor)", "DefaultAttributesProcessor.process(empty iterable)"};
constexpr int kNEmptyWays = 13;
sm::MetricAttributes build_empty(int way) {
  static const TV one = mk(vI32, 1, "int32(1)"), x = mks(vSV, "x", "sv\"x\"");
  sm::FilteringAttributesProcessor region(std::unordered_map<std::string, bool>{{"region", true}});
  sm::FilteringAttributesProcessor nothing(std::unordered_map<std::string, bool>{});
  sm::DefaultAttributesProcessor dflt;
  Backing bk;
  KVVec none;
  KVVec ab = materialize(bk, AList{{"a", &one}, {"b", &x}}, kExactHeap), a = materialize(bk, AList{{"a", &one}}, kExactHeap);
  opentelemetry::common::KeyValueIterableView<KVVec> inone(none), iab(ab), ia(a);
  switch (way) {
    case 0: return sm::MetricAttributes{};
    case 1: { sm::MetricAttributes d; sm::MetricAttributes e(d); return e; }
    case 2: { sm::MetricAttributes e(IL{{"a", AttributeValue((int32_t)1)}}); e = sm::MetricAttributes(); return e; }
    case 3: return sm::MetricAttributes(inone);
    case 4: return sm::MetricAttributes(inone, &dflt);
    case 5: return sm::MetricAttributes(inone, &region);
    case 6: return sm::MetricAttributes(IL{});
    case 7: return sm::MetricAttributes(IL{}, &region);
    case 8: return sm::MetricAttributes(IL{{"a", AttributeValue((int32_t)1)}}, &region);
    case 9: return sm::MetricAttributes(iab, &region);
    case 10: return region.process(iab);
    case 11: return sm::MetricAttributes(ia, &nothing);
    default: return dflt.process(inone);
  }
}

void run_empty_ways(vf::Ctx &c) {
  int w1 = c.pick("way1", kNEmptyWays), w2 = c.pick("way2", kNEmptyWays);
  int api = c.pick("api", 3);
  c.stage("empty-set(build)");
  sm::MetricAttributes m1 = build_empty(w1), m2 = build_empty(w2);
  c.step(2);
  std::string d = std::string("empty set built as '") + kEmptyWay[w1] + "' vs '" + kEmptyWay[w2] + "'";
  CHECK(c, m1.empty() && m2.empty(), "C08:empty-set:not-empty", "a map that must be empty holds {" + vfq::printable(canon_real(m1) + canon_real(m2), 200) + "}; " + d);
  for (int k = 0; k < 2; ++k) {
    const sm::MetricAttributes &m = k ? m2 : m1;
    CHECK(c, m.GetHash() == sc::GetHashForAttributeMap(m), "C08:empty-set:stale-hash",
          vf::sfmt("the cached hash (0x%zx) of the empty set built as '%s' is not the hash of its content (0x%zx)", m.GetHash(), kEmptyWay[k ? w2 : w1], sc::GetHashForAttributeMap(m)));
  }
  CHECK(c, m1 == m2 && m2 == m1, "C08:empty-set:compare-unequal", "two empty attribute sets compare unequal; " + d);
  CHECK(c, m1.GetHash() == m2.GetHash() && sm::MetricAttributesHash()(m1) == sm::MetricAttributesHash()(m2), "C08:empty-set:hash-differs", "two empty attribute sets hash differently; " + d);
  c.stage("empty-set(table)");
  sm::AttributesHashMap table;
  auto mkagg = []() { return std::unique_ptr<sm::Aggregation>(new sm::LongSumAggregation(true)); };
  sm::Aggregation *g1 = nullptr, *g2 = nullptr;
  if (api == 0) { g1 = table.GetOrSetDefault(m1, mkagg); g2 = table.GetOrSetDefault(m2, mkagg); }
  else if (api == 1) { sm::MetricAttributes t1(m1), t2(m2); g1 = table.GetOrSetDefault(std::move(t1), mkagg); g2 = table.GetOrSetDefault(std::move(t2), mkagg); }
  else { table.Set(m1, mkagg()); g1 = table.Get(m1); table.Set(m2, mkagg()); g2 = table.Get(m2); }
  c.step(2);
  CHECK(c, g1 && g2 && table.Size() == 1, "C08:empty-set:table-different-series", vf::sfmt("%zu series for the empty attribute set (api %d); ", table.Size(), api) + d);
  if (api != 2) CHECK(c, g1 == g2, "C08:empty-set:table-different-series", "the second lookup of the empty set created another series; " + d);
  CHECK(c, table.Has(m1) && table.Has(m2) && table.Get(m1) == g2 && table.Get(m2) == g2, "C08:empty-set:table-lookup", "Has/Get disagree for the empty set; " + d);
  // the recording paths: empty iterable, iterable filtered to empty, and the key the attribute-less overloads use
  sm::FilteringAttributesProcessor region(std::unordered_map<std::string, bool>{{"region", true}});
  static const TV one = mk(vI32, 1, "int32(1)");
  Backing bk;
  KVVec none, a = materialize(bk, AList{{"a", &one}}, kExactHeap);
  opentelemetry::common::KeyValueIterableView<KVVec> inone(none), ia(a);
  sm::Aggregation *g3 = table.GetOrSetDefault(inone, &region, mkagg), *g4 = table.GetOrSetDefault(ia, &region, mkagg);
  sm::MetricAttributes attrless = sm::MetricAttributes{};
  sm::Aggregation *g5 = table.GetOrSetDefault(attrless, mkagg);
  c.step(3);
  CHECK(c, g3 == g2 && g4 == g2 && g5 == g2 && table.Size() == 1, "C08:empty-set:table-different-series",
        vf::sfmt("%zu series after looking the empty set up through an empty iterable, a list filtered to empty and MetricAttributes{}; ", table.Size()) + d);
  c.state(vf::sfmt("empty|%d|%zu|%zx", api, table.Size(), m1.GetHash()));
  c.outcome(vf::sfmt("empty|%zu|%zx|%zx", table.Size(), m1.GetHash(), m2.GetHash()));
  static int ns = 0;
  if (ns < 1) { ++ns; c.sample(d + vf::sfmt(" => equal, hash 0x%zx, one series", m1.GetHash())); }
}

// ---------------------------------------------------------------------------------------------
// part 5: measurements without attributes (the attribute-less overloads), with an empty container and
// with attributes that the view filters away are ONE series; two cycles, delta and cumulative collectors
// ---------------------------------------------------------------------------------------------
class PullReader2 : public sm::MetricReader {
 public:
  explicit PullReader2(bool cumulative) : cumulative_(cumulative) {}
  sm::AggregationTemporality GetAggregationTemporality(sm::InstrumentType) const noexcept override { return cumulative_ ? sm::AggregationTemporality::kCumulative : sm::AggregationTemporality::kDelta; }
  bool cumulative_;
 private:
  bool OnForceFlush(std::chrono::microseconds) noexcept override { return true; }
  bool OnShutDown(std::chrono::microseconds) noexcept override { return true; }
};
class Handle2 : public sm::CollectorHandle {
 public:
  explicit Handle2(bool cumulative) : cumulative_(cumulative) {}
  sm::AggregationTemporality GetAggregationTemporality(sm::InstrumentType) noexcept override { return cumulative_ ? sm::AggregationTemporality::kCumulative : sm::AggregationTemporality::kDelta; }
  bool cumulative_;
};
struct Pt { std::string attrs; double total; uint64_t count; };  // count: histogram only (0 otherwise)
void add_points2(std::vector<Pt> &out, const sm::MetricData &md) {
  for (auto &pa : md.point_data_attr_) {
    Pt p{canon_real(pa.attributes), -1, 0};
    if (nostd::holds_alternative<sm::SumPointData>(pa.point_data)) {
      auto &sp = nostd::get<sm::SumPointData>(pa.point_data);
      p.total = nostd::holds_alternative<int64_t>(sp.value_) ? (double)nostd::get<int64_t>(sp.value_) : nostd::get<double>(sp.value_);
    } else if (nostd::holds_alternative<sm::HistogramPointData>(pa.point_data)) {
      auto &hp = nostd::get<sm::HistogramPointData>(pa.point_data);
      p.total = nostd::holds_alternative<int64_t>(hp.sum_) ? (double)nostd::get<int64_t>(hp.sum_) : nostd::get<double>(hp.sum_);
      p.count = hp.count_;
    }
    out.push_back(p);
  }
}
const char *kRecKind[] = {"Add(v)", "Add(v,ctx)", "Add(v,{})", "Add(v,[a=1,b=x])", "Add(v,[region=x])", "Add(v,[region=x,a=1])"};
const char *kEmptySeam[] = {"storage-long", "storage-double", "meter-counter-uint64", "meter-counter-double", "meter-histogram-uint64", "meter-histogram-double"};

void run_empty_mix(vf::Ctx &c) {
  int seam = c.pick("seam", 6);
  int filt = c.pick("filter", 3);   // 0: no filter, 1: allow{region}, 2: allow{} (nothing)
  static const std::vector<std::vector<int>> kCols = {{0}, {1}, {0, 1}};
  const std::vector<int> &ct = kCols[c.pick("collectors", 3)];
  int n = c.pick("records", 4);     // 0..3 records
  std::vector<int> kind(n);
  for (int i = 0; i < n; ++i) kind[i] = c.pick("kind", 6);
  int cut = c.pick("cut", n + 1);   // the first `cut` records fall into cycle 0, the rest into cycle 1
  std::set<std::string> allow_store;
  const std::set<std::string> *allow = nullptr;
  if (filt == 1) { allow_store = {"region"}; allow = &allow_store; }
  if (filt == 2) { allow = &allow_store; }
  static const TV one = mk(vI32, 1, "int32(1)"), x = mks(vSV, "x", "sv\"x\"");
  const AList lists[6] = {{}, {}, {}, {{"a", &one}, {"b", &x}}, {{"region", &x}}, {{"region", &x}, {"a", &one}}};
  bool is_meter = seam >= 2, is_hist = seam >= 4, is_double = (seam % 2) == 1;

  c.stage("empty-mix(setup)");
  std::unique_ptr<sm::AttributesProcessor> proc = make_processor(allow);
  sm::InstrumentDescriptor desc = {"n", "d", "u", sm::InstrumentType::kCounter, is_double ? sm::InstrumentValueType::kDouble : sm::InstrumentValueType::kLong};
  std::unique_ptr<sm::SyncMetricStorage> storage;
  std::vector<std::shared_ptr<sm::CollectorHandle>> cols;
  std::unique_ptr<sm::MeterProvider> mp;
  std::vector<std::shared_ptr<PullReader2>> readers;
  nostd::unique_ptr<opentelemetry::metrics::Counter<uint64_t>> cu;
  nostd::unique_ptr<opentelemetry::metrics::Counter<double>> cd;
  nostd::unique_ptr<opentelemetry::metrics::Histogram<uint64_t>> hu;
  nostd::unique_ptr<opentelemetry::metrics::Histogram<double>> hd;
  nostd::shared_ptr<opentelemetry::metrics::Meter> meter;
  auto t0 = std::chrono::system_clock::now();
  if (!is_meter) {
    storage.reset(new sm::SyncMetricStorage(desc, sm::AggregationType::kSum, proc.get(), nullptr));
    for (int t : ct) cols.emplace_back(new Handle2(t == 1));
  } else {
    mp.reset(new sm::MeterProvider());
    for (int t : ct) { readers.emplace_back(new PullReader2(t == 1)); mp->AddMetricReader(readers.back()); }
    std::unique_ptr<sm::View> view(new sm::View("v", "view", "u", sm::AggregationType::kDefault, nullptr, make_processor(allow)));
    std::unique_ptr<sm::InstrumentSelector> is(new sm::InstrumentSelector(is_hist ? sm::InstrumentType::kHistogram : sm::InstrumentType::kCounter, "n", "u"));
    std::unique_ptr<sm::MeterSelector> ms(new sm::MeterSelector("m", "1", "s"));
    mp->AddView(std::move(is), std::move(ms), std::move(view));
    meter = mp->GetMeter("m", "1", "s");
    if (is_hist) { if (is_double) hd = meter->CreateDoubleHistogram("n", "d", "u"); else hu = meter->CreateUInt64Histogram("n", "d", "u"); }
    else { if (is_double) cd = meter->CreateDoubleCounter("n", "d", "u"); else cu = meter->CreateUInt64Counter("n", "d", "u"); }
  }

  struct R { std::string attrs; double v; };
  std::vector<R> recs;
  std::vector<size_t> last(ct.size(), 0);
  std::string hist = std::string(kEmptySeam[seam]) + ", " + show(allow) + ":";
  std::string fin;
  for (int cyc = 0; cyc < 2; ++cyc) {
    c.stage("empty-mix(record)");
    for (int i = (cyc == 0 ? 0 : cut); i < (cyc == 0 ? cut : n); ++i) {
      double v = (double)(1 << i);
      int k = kind[i];
      Backing bk;
      KVVec kv = materialize(bk, lists[k], kExactHeap);
      opentelemetry::common::KeyValueIterableView<KVVec> it(kv);
      opentelemetry::context::Context ctx{};
      if (!is_meter) {
        if (k <= 1) { if (is_double) storage->RecordDouble(v, ctx); else storage->RecordLong((int64_t)v, ctx); }
        else { if (is_double) storage->RecordDouble(v, it, ctx); else storage->RecordLong((int64_t)v, it, ctx); }
      } else if (!is_hist) {
        if (is_double) { if (k == 0) cd->Add(v); else if (k == 1) cd->Add(v, ctx); else cd->Add(v, it, ctx); }
        else { if (k == 0) cu->Add((uint64_t)v); else if (k == 1) cu->Add((uint64_t)v, ctx); else cu->Add((uint64_t)v, it, ctx); }
      } else {
        if (is_double) { if (k <= 1) hd->Record(v, ctx); else hd->Record(v, it, ctx); }
        else { if (k <= 1) hu->Record((uint64_t)v, ctx); else hu->Record((uint64_t)v, it, ctx); }
      }
      bk.scribble();
      recs.push_back({strict(model_of(lists[k], allow)), v});
      hist += vf::sfmt(" %s", kRecKind[k]);
      c.step();
    }
    for (size_t r = 0; r < ct.size(); ++r) {
      c.stage("empty-mix(collect)");
      std::vector<Pt> got;
      if (!is_meter) storage->Collect(cols[r].get(), cols, t0, std::chrono::system_clock::now(), [&](sm::MetricData md) { add_points2(got, md); return true; });
      else readers[r]->Collect([&](sm::ResourceMetrics &rm) { for (auto &smd : rm.scope_metric_data_) for (auto &md : smd.metric_data_) add_points2(got, md); return true; });
      c.step();
      bool cumulative = ct[r] == 1;
      hist += vf::sfmt(" | C%zu%s", r, cumulative ? "c" : "d");
      std::map<std::string, std::pair<double, uint64_t>> want;
      for (size_t i = cumulative ? 0 : last[r]; i < recs.size(); ++i) { want[recs[i].attrs].first += recs[i].v; want[recs[i].attrs].second += 1; }
      last[r] = recs.size();
      std::string gs;
      std::map<std::string, int> seen;
      for (auto &p : got) { gs += "{" + vfq::printable(p.attrs, 60) + "}=" + vf::sfmt("%g ", p.total); seen[p.attrs]++; }
      const char *sname = is_meter ? "meter" : "storage";
      for (auto &sn : seen)
        if (sn.second > 1) c.fail(vf::sfmt("C08:empty-set:equal-sets-split:%s", sname), vf::sfmt("%d series carry the attribute set {%s}: ", sn.second, vfq::printable(sn.first, 60).c_str()) + hist + " => " + gs);
      bool ok = got.size() == want.size();
      for (auto &p : got) {
        auto w = want.find(p.attrs);
        ok = ok && w != want.end() && w->second.first == p.total && (!is_hist || w->second.second == p.count);
      }
      CHECK(c, ok, vf::sfmt("C08:empty-set:content:%s", sname), "measurements without attributes, with an empty container and with attributes filtered away must be one series carrying the total: " + hist + " => " + gs);
      c.state(vf::sfmt("mix|%d|%d|%zu|", seam, cyc, r) + gs);
      if (cyc == 1) fin += gs + "/";
    }
  }
  c.outcome(vf::sfmt("mix|%d|%d|", seam, filt) + fin);
  static int ns = 0;
  if (ns < 1) { ++ns; c.sample(hist + " => " + fin); }
}

const std::set<std::string> *allow_subset(const std::vector<std::string> &keys, int mask, std::set<std::string> &store) {
  // mask 0: no filter (DefaultAttributesProcessor); mask m >= 1: allow-list = subset (m-1) of keys
  if (mask == 0) return nullptr;
  store.clear();
  for (size_t i = 0; i < keys.size(); ++i) if (((mask - 1) >> i) & 1) store.insert(keys[i]);
  return &store;
}

void run(vf::Ctx &c) {
  vf::clock_reset();
  vf::clock_set_autostep_ns(1000);
  static bool quiet = (sc::internal_log::GlobalLogHandler::SetLogLevel(sc::internal_log::LogLevel::None), true);
  (void)quiet;
  std::set<std::string> store;
  Case cs;
  int part = c.pick("part", 6);
  if (part == 4) { run_empty_ways(c); return; }
  if (part == 5) { run_empty_mix(c); return; }
  if (part == 0) {
    // every pair of typed values under one key (and under an allow-list that keeps / drops it)
    int i = c.pick("v1", (int)g_typed.size()), j = c.pick("v2", (int)g_typed.size());
    cs.l1 = {{"a", &g_typed[i]}};
    cs.l2 = {{"a", &g_typed[j]}};
    static const std::vector<std::string> ka = {"a", "b"};
    cs.allow = allow_subset(ka, c.pick("allow", 1 + 4), store);
    cs.shape = (KeyShape)c.pick("keyshape", 3);
    run_case(c, cs, false);
  } else if (part == 1) {
    // lists over {a,b,c} x small values: every order, duplicates (last wins), every allow-list
    cs.allow = allow_subset(g_keys, c.pick("allow", 1 + 8), store);
    cs.shape = (KeyShape)c.pick("keyshape", 3);
    cs.l1 = pick_list(c, "entry1", g_keys, g_small, g_n1);
    cs.l2 = pick_list(c, "entry2", g_keys, g_small, g_n2);
    run_case(c, cs, false);
  } else if (part == 2) {
    // keys with an embedded NUL and keys that are prefixes of each other
    static const std::vector<TV> one = {mk(vI32, 1, "int32(1)")};
    cs.allow = allow_subset(g_nulkeys, c.pick("allow", 1 + 8), store);
    cs.shape = (KeyShape)c.pick("keyshape", 3);
    cs.l1 = pick_list(c, "entry1", g_nulkeys, one, 2);
    cs.l2 = pick_list(c, "entry2", g_nulkeys, one, 2);
    run_case(c, cs, false);
  } else {
    // the same through MeterProvider + View(attributes processor) + counter + pull reader
    cs.allow = allow_subset(g_keys, c.pick("allow", 1 + 8), store);
    cs.shape = (KeyShape)c.pick("keyshape", 3);
    cs.l1 = pick_list(c, "entry1", g_keys, g_small, 2);
    cs.l2 = pick_list(c, "entry2", g_keys, g_small, c.thorough() ? 2 : 1);
    cs.cumulative = c.pick("reader", 2) == 1;
    run_case(c, cs, true);
  }
}

void setup(vf::Options &o) {
  o.split_depth = 3;
  o.deadline_s = o.thorough ? 1200 : 150;
  o.table_bits = 24;
  build_alphabets();
  g_n1 = atoi(o.get("n1", "3").c_str());
  g_n2 = atoi(o.get("n2", o.thorough ? "3" : "2").c_str());
}

}  // namespace

VF_MAIN("c08_attrs", "C08", setup, run)
