CLAIMS["C17"] = dict(
    engine="seq",
    technique="explicit-state exploration of operation histories on the real Meter / ObservableRegistry / AsyncMetricStorage / TemporalMetricStorage (and, in an ABI v2 build, "
              "the synchronous Gauge) against a per-reader reference model (bounded depth, canonical-state pruning on the private maps, deterministic virtual clock that never ties)",
    text="Observable counter, up-down counter and gauge (int64 and double) with 1..3 pull readers of mixed temporality and three callbacks that pairwise share the function or the "
         "state pointer: every history of AddCallback / RemoveCallback / destroy-instrument / script(callback: step, decrease, attribute set appears / disappears, one invocation observing a set 1-3 times) / "
         "Collect(reader); quick = depth 5 after AddCallback(cb0) over 6 reader configurations (D, C, DD, DC, DDC, DCC); thorough = depth 5 with the richer script alphabet over all 14 ordered reader "
         "configurations and both start states, depth 6 over the 6 representatives, depth 7 with a slim alphabet (two callbacks, at most two readers). Per Collect: every registered "
         "callback invoked exactly once, no other callback invoked (removed / instrument destroyed); for every attribute set observed by the collection a cumulative reader gets the "
         "reported total, a delta reader the total minus what that reader had been given, a gauge the observed value; points for attribute sets not observed by the collection must, "
         "if present, carry the latest observation. Sub-run 'second instrument' (quick depth 4, thorough depth 6): a second observable gauge o2 of the OTHER value type on the same meter "
         "whose callback is the same (function, state) pair as cb0 of the first instrument; histories of step / AddCallback / RemoveCallback on either instrument, Destroy(o), Destroy(o2), "
         "Collect, starting with both registered in either order; invocation counts are kept per (instrument, callback) and both streams are compared. The readers' temporality selector "
         "depends on the instrument type it is asked about (configured temporality for the types of this meter's instruments, the opposite otherwise). Second harness (SDK rebuilt with OPENTELEMETRY_ABI_VERSION_NO=2): synchronous Gauge<int64_t>/Gauge<double>, every history of "
         "Record(value, attrs) / Collect(reader) through all four Record overloads (with and without attributes / explicit context), depth 4 (quick) / 5 over all 14 reader configurations and 6 over those with at most two readers (thorough): every point is the most recently "
         "recorded value and a value recorded since the reader's previous collection is reported. The alphabet never registers the same (callback, state) pair twice and never lets two "
         "callbacks report the same attribute set in one collection. The default clock never ties; a separate sub-run of both harnesses (gauges only, depth 4 quick / 5 thorough) lets the "
         "clock stand still during every operation and lets at most two clock-reading operations per history happen without clock progress; its findings carry the prefix C17:clock-tie. "
         "Every Record overload of both gauge classes on a gauge created from a meter whose MeterProvider is gone must return. Engine-A harness c17_conc (preemption bound 2 / 3): a collection in "
         "flight while another thread removes a callback or destroys the instrument, and two readers (cumulative + delta) collecting concurrently on one observable counter / gauge "
         "(one invocation per collection, cumulative = reported total, the delta reader's points add up to it).",
    note=SEQ_NOTE)
