CLAIMS["C17"] = dict(
    engine="seq",
    technique="explicit-state exploration of operation histories on the real Meter / ObservableRegistry / AsyncMetricStorage / TemporalMetricStorage (and, in an ABI v2 build, "
              "the synchronous Gauge) against a per-reader reference model (bounded depth, canonical-state pruning on the private maps, deterministic virtual clock that never ties)",
    text="Observable counter, up-down counter and gauge (int64 and double) with 1..3 pull readers of mixed temporality and three callbacks that pairwise share the function or the "
         "state pointer: every history of AddCallback / RemoveCallback / destroy-instrument / script(callback: step, decrease (not for counters), attribute set appears / disappears) / "
         "Collect(reader); quick = depth 5 after AddCallback(cb0) over 6 reader configurations (D, C, DD, DC, DDC, DCC); thorough = depth 5 with the richer script alphabet over all 14 ordered reader "
         "configurations and both start states, depth 6 over the 6 representatives, depth 7 with a slim alphabet (two callbacks, at most two readers). Per Collect: every registered "
         "callback invoked exactly once, no other callback invoked (removed / instrument destroyed); for every attribute set observed by the collection a cumulative reader gets the "
         "reported total, a delta reader the total minus what that reader had been given, a gauge the observed value; points for attribute sets not observed by the collection must, "
         "if present, carry the latest observation. Second harness (SDK rebuilt with OPENTELEMETRY_ABI_VERSION_NO=2): synchronous Gauge<int64_t>/Gauge<double>, every history of "
         "Record(value, attrs) / Collect(reader), depth 4 (quick) / 5 over all 14 reader configurations and 6 over those with at most two readers (thorough): every point is the most recently "
         "recorded value and a value recorded since the reader's previous collection is reported. The alphabet never registers the same (callback, state) pair twice and never lets two "
         "callbacks report the same attribute set in one collection. The default clock never ties; a separate sub-run of both harnesses (gauges only, depth 4 quick / 5 thorough) lets the "
         "clock stand still during every operation and lets at most two clock-reading operations per history happen without clock progress; its findings carry the prefix C17:clock-tie.",
    note=SEQ_NOTE)
