// C15 (b): BaggagePropagator::Extract on arbitrary bytes (Engine B, deviation-bounded inputs).
// Every header of the generated set is placed in an exact-size heap block (no NUL) behind a map
// carrier and extracted through the real propagator into one of two caller contexts. Oracle: the
// independent three-valued reference decoder of c15_common.h -
//   soundness (every input): each kept entry is the percent-decoding of one header member, in header
//     order, key non-empty, key and value (incl. metadata, verbatim) within 0x20..0x7e, at most 180
//     entries, no entry from a member beyond 4096 bytes, nothing from a header beyond 8192 bytes;
//     nothing valid => the returned context IS the caller's context;
//   completeness (only members written purely in the encoder's output alphabet, header within all
//     limits): the member is kept; with more than 180 members (header within the size limit) this
//     still holds for the members among the first 180.
#include <algorithm>

#include "c15_common.h"

using namespace c15;
namespace bg = opentelemetry::baggage;

namespace {

struct Family {
  const char *name;
  std::vector<std::string> inputs;
};
std::vector<Family> g_fam;
std::vector<std::string> g_seeds2;      // seeds of the double-mutation family (thorough)
std::string g_classes1, g_classes2;

std::string rep(const std::string &s, size_t n) { std::string r; for (size_t i = 0; i < n; ++i) r += s; return r; }

void setup(vf::Options &o) {
  o.split_depth = 2;
  o.deadline_s = o.thorough ? 900 : 100;
  o.table_bits = o.thorough ? 24 : 22;
  // one representative per byte class the decoder can distinguish: lower/upper hex letter, non-hex
  // letter (both cases), digit, the three separators, '%', '+', blank, tab, newline, unreserved
  // punctuation, other printable ('!', '"', '\\'), control, DEL, 0x80, 0xff, NUL
  g_classes1 = std::string("aFgZ1=,;%+ \t\n~!\"\\\x01\x7f\x80\xff", 21) + std::string(1, '\0');
  g_classes2 = std::string("a1=,;%+ \x01", 9);
  // ---- F0: seeds + every single point mutation ------------------------------------------------
  std::vector<std::string> seeds = {"", "a=1", "a=1,b=2", "k+y=v%3Bx", "a=1;m=2,b=%41%7e", "a=;m", "%20=+", "a=1,,b=2", " a = 1 , b=2 ", "a=1;p q; r=\"s\" ,b=2", "a==,b=%2C"};
  {
    Family f{"mut1", {}};
    for (auto &s : seeds) {
      f.inputs.push_back(s);
      auto ms = vfq::mutations(s, g_classes1);
      f.inputs.insert(f.inputs.end(), ms.begin(), ms.end());
    }
    g_fam.push_back(std::move(f));
  }
  // ---- F1: percent escapes of every kind at every member position ----------------------------------
  {
    Family f{"pct", {}};
    const char *esc[] = {"%", "%4", "%G1", "%4G", "%g1", "%41", "%00", "%01", "%1F", "%1f", "%20", "%21", "%7E", "%7e", "%7F", "%80", "%C3%A9", "%FF", "%ff",
                         "%2C", "%3D", "%3d", "%3B", "%25", "%2B", "%%", "%+1", "%4%", "%%41", "%4=", "%,", "%;", "% 41", "%0", "%\x80" "1"};
    for (const char *e : esc) {
      std::string E = e;
      std::vector<std::string> ms = {E + "=v", "k" + E + "=v", E + "k=v", "k=" + E, "k=v" + E, "k=" + E + "v", "k=v" + E + ";m", "k=v;m" + E, E + "=" + E, E};
      for (auto &m : ms) { f.inputs.push_back(m); f.inputs.push_back(m + ",b=2"); f.inputs.push_back("a=1," + m); f.inputs.push_back("a=1," + m + ",b=2"); }
    }
    g_fam.push_back(std::move(f));
  }
  // ---- F2: member count around the limit ---------------------------------------------------------
  {
    Family f{"count", {}};
    for (int n : {179, 180, 181, 182, 200, 360}) {
      std::string all, first_bad, alt_empty, last_bad, ows, dup, meta;
      for (int i = 0; i < n; ++i) {
        std::string m = vf::sfmt("k%d=%d", i, i);
        all += (i ? "," : "") + m;
        first_bad += (i ? "," : "") + (i == 0 ? std::string("broken") : m);
        last_bad += (i ? "," : "") + (i == n - 1 ? std::string("x=%zz") : m);
        alt_empty += (i ? ",," : "") + m;
        ows += (i ? ", " : "") + m;
        dup += (i ? "," : "") + std::string(i % 2 ? "k=1" : m);
        meta += (i ? "," : "") + m + ";p";
      }
      for (auto &s : {all, first_bad, last_bad, alt_empty, ows, dup, meta, all + ",", "," + all, all + ",=,"}) f.inputs.push_back(s);
      // ten leading invalid members in front of n valid ones
      f.inputs.push_back(rep("bad,", 10) + all);
    }
    // a valid + b invalid + c valid members: the invalid ones are inside / at the edge of the first 180
    // (10+170 = exactly 180 members; 170+10+10: the 180th member is the last invalid one; ...)
    const int shapes[][3] = {{0, 10, 170}, {0, 10, 171}, {170, 10, 10}, {170, 10, 11}, {179, 2, 5}, {180, 1, 1}, {1, 179, 1}, {1, 180, 1}};
    for (auto &sh : shapes) {
      for (const char *bad : {"bad", "x=%zz", "=v"}) {
        std::string h;
        int id = 0;
        for (int i = 0; i < sh[0]; ++i, ++id) h += vf::sfmt("k%d=%d,", id, id);
        for (int i = 0; i < sh[1]; ++i) h += std::string(bad) + ",";
        for (int i = 0; i < sh[2]; ++i, ++id) h += vf::sfmt("k%d=%d,", id, id);
        h.pop_back();
        f.inputs.push_back(h);
      }
    }
    g_fam.push_back(std::move(f));
  }
  // ---- F3: member size around the limit ----------------------------------------------------------
  {
    Family f{"member", {}};
    for (size_t L : {4095u, 4096u, 4097u, 4098u, 5000u}) {
      std::vector<std::string> ms;
      ms.push_back("k=" + std::string(L - 2, 'v'));                          // long value
      ms.push_back(std::string(L - 2, 'k') + "=v");                          // long key
      ms.push_back("k=v;" + std::string(L - 4, 'm'));                        // long metadata
      ms.push_back("k=" + rep("%41", (L - 2) / 3) + std::string((L - 2) % 3, 'v'));  // escapes: decoded much shorter
      ms.push_back(std::string(L / 2, 'k') + "=" + std::string(L - L / 2 - 1, 'v'));
      for (auto &m : ms) {
        f.inputs.push_back(m);
        f.inputs.push_back(m + ",b=2");
        f.inputs.push_back("a=1," + m);
        f.inputs.push_back("a=1, " + m + " ,b=2");
      }
    }
    g_fam.push_back(std::move(f));
  }
  // ---- F4: header size around the limit ----------------------------------------------------------
  {
    Family f{"header", {}};
    for (size_t H : {8191u, 8192u, 8193u, 8194u, 9000u}) {
      // three members, each below the member limit
      size_t l1 = 2700, l2 = 2700, l3 = H - l1 - l2 - 2;
      std::string m1 = "a=" + std::string(l1 - 2, 'x'), m2 = "b=" + std::string(l2 - 2, 'y'), m3 = "c=" + std::string(l3 - 2, 'z');
      f.inputs.push_back(m1 + "," + m2 + "," + m3);
      size_t l3s = l3 - 5;
      std::string m3s = "c=" + std::string(l3s - 2, 'z');
      f.inputs.push_back(m1 + "," + m2 + "," + m3s + "     ");   // padded with trailing blanks
      f.inputs.push_back("     " + m1 + "," + m2 + "," + m3s);   // leading blanks
      f.inputs.push_back(m1 + "," + m2 + "," + m3s + ",,,,,");   // trailing empty members
      f.inputs.push_back(m1 + "," + m2 + "," + m3s + ",%zz=");   // trailing invalid member
      // 180 members and exactly H bytes: both limits at once
      std::string many;
      for (int i = 0; i < 179; ++i) many += vf::sfmt("k%03d=%s,", i, std::string(39, 'v').c_str());
      if (many.size() + 3 <= H) { many += "z=" + std::string(H - many.size() - 2, 'w'); f.inputs.push_back(many); }
    }
    g_fam.push_back(std::move(f));
  }
  // ---- F5: double mutations of the short seeds ----------------------------------------------------
  g_seeds2 = {"a=1", "a=;m", "k=%41"};
  if (o.thorough) { g_seeds2.push_back("a=1,b=2"); g_seeds2.push_back("k+y=v%3Bx"); g_seeds2.push_back("a=%41;m,b=2"); }
}

std::string caller_ctx_name(int w) { return w == 0 ? "empty context" : "context with value and older baggage"; }

void judge(vf::Ctx &c, const char *family, const std::string &in, int which_ctx) {
  // caller's context
  ctxns::Context base;
  nostd::shared_ptr<Baggage> old_bag;
  if (which_ctx == 1) {
    base = base.SetValue("other", (int64_t)42);
    old_bag = nostd::shared_ptr<Baggage>(new Baggage())->Set("old", "1");
    base = bg::SetBaggage(base, old_bag);
  }
  Carrier car;
  car.put("baggage", in);
  car.put("unrelated", "x=1");
  bg::propagation::BaggagePropagator prop;
  c.stage("Extract");
  ctxns::Context out = prop.Extract(car, base);
  car.scribble_all();  // whatever was extracted owns its strings
  c.step();
  bool same = (out == base);
  c.stage("judge");
  auto desc = [&]() { return vf::sfmt("header (%zu bytes) '%s' into %s", in.size(), vfq::printable(in, 160).c_str(), caller_ctx_name(which_ctx).c_str()); };
  List got;
  if (!same) {
    nostd::shared_ptr<Baggage> b = bg::GetBaggage(out);
    got = entries(*b);
    if (got.empty()) c.fail("C15:extract:context-replaced-with-nothing-valid", desc() + ": the returned context differs from the caller's although no entry was extracted");
    // everything else the caller's context held is still there, and the caller's context is untouched
    if (which_ctx == 1) {
      auto v = out.GetValue("other");
      if (!(nostd::holds_alternative<int64_t>(v) && nostd::get<int64_t>(v) == 42)) c.fail("C15:extract:context-values-lost", desc() + ": the caller's other context value is gone");
      if (entries(*bg::GetBaggage(base)) != List{{"old", "1"}}) c.fail("C15:extract:caller-context-modified", desc() + ": the caller's context now holds a different baggage");
    } else {
      if (!entries(*bg::GetBaggage(base)).empty()) c.fail("C15:extract:caller-context-modified", desc() + ": the caller's empty context now holds a baggage");
    }
  }
  // ---- soundness ---------------------------------------------------------------------------------
  for (auto &e : got) {
    if (e.first.empty()) c.fail("C15:extract:invalid-entry-kept:empty-key", desc() + " kept " + show(got));
    if (!printable_ascii(e.first)) c.fail("C15:extract:invalid-entry-kept:key", desc() + " kept a key with a byte outside 0x20..0x7e: " + show(got));
    if (!printable_ascii(e.second)) {
      size_t sc = e.second.find(';');
      bool in_meta = sc != std::string::npos && printable_ascii(e.second.substr(0, sc));
      c.fail(in_meta ? "C15:extract:invalid-entry-kept:metadata" : "C15:extract:invalid-entry-kept:value", desc() + " kept a value with a byte outside 0x20..0x7e: " + show(got));
    }
  }
  if (got.size() > kMaxMembers) c.fail("C15:extract:more-than-180-members", desc() + vf::sfmt(" kept %zu entries", got.size()));
  Expectation x = expect_for(in);
  if (x.must_be_empty && !got.empty()) c.fail("C15:extract:header-limit", desc() + vf::sfmt(" kept %zu entries from a header beyond 8192 bytes", got.size()));
  if (!explains(x.members, got, KeepPrefix{0})) {
    // name the first entry that no member explains (greedy scan)
    size_t mi = 0;
    std::string culprit = "(order)";
    for (auto &e : got) {
      bool found = false;
      for (; mi < x.members.size() && !found; ++mi)
        for (auto &r : x.members[mi].readings) if (r == e) found = true;
      if (!found) { culprit = "'" + vfq::printable(e.first, 40) + "'='" + vfq::printable(e.second, 60) + "'"; break; }
    }
    bool is_member_limit = false, is_bad_meta = false;
    for (auto &m : x.members) {
      if (m.readings.empty() && std::string(m.why_drop) == "member longer than 4096 bytes") is_member_limit = true;
      if (m.readings.empty() && std::string(m.why_drop) == "non-printable byte in metadata") is_bad_meta = true;
    }
    c.fail(is_member_limit ? "C15:extract:member-limit" : is_bad_meta ? "C15:extract:entry-from-member-with-invalid-metadata" : "C15:extract:entry-not-a-decoding-of-a-member",
           desc() + ": entry " + culprit + " of " + show(got) + " is not the decoding of a header member (in header order)");
  }
  // ---- completeness ------------------------------------------------------------------------------
  size_t must = 0, dontcare = 0, mustdrop = 0;
  for (auto &m : x.members) { if (m.readings.empty()) ++mustdrop; else if (m.must_keep) ++must; else ++dontcare; }
  // header within all limits: every must-keep member; more than 180 members in a header within the size
  // limit: every must-keep member among the first 180 members (see Expectation::keep_prefix)
  if (!explains(x.members, got, KeepPrefix{x.keep_prefix})) {
    std::string missing;
    size_t gi = 0, mi = 0, missing_at = 0;
    for (auto &m : x.members) {
      if (mi++ >= x.keep_prefix) break;
      if (!m.must_keep) continue;
      size_t g = gi;
      while (g < got.size() && !(got[g] == m.readings[0])) ++g;
      if (g == got.size()) { missing = m.text; missing_at = mi; break; }
      gi = g + 1;
    }
    if (x.complete)
      c.fail(std::string("C15:extract:valid-member-dropped:") + family,
             desc() + ": the member '" + vfq::printable(missing, 60) + "' is written in the encoder's alphabet, valid and within the limits, but the result is " + show(got));
    c.fail(std::string("C15:extract:valid-member-among-first-180-dropped:") + family,
           desc() + vf::sfmt(": the header has %zu members; member #%zu '", x.members.size(), missing_at) + vfq::printable(missing, 60) +
               "' is among the first 180, written in the encoder's alphabet and valid, but the result is " + show(got));
  }
  c.counted("members_must_keep", must);
  c.counted("members_must_drop", mustdrop);
  c.counted("members_dont_care", dontcare);
  if (!x.complete) c.counted("inputs_beyond_limits");
  c.state("x|" + canon(got) + (same ? "|same" : "|new"));
  c.outcome(canon(got));
  if (in.size() < 40 && which_ctx == 0) c.sample("Extract('" + vfq::printable(in) + "') => " + show(got) + (same ? " (caller's context returned)" : ""));
}

// A pick with many alternatives, split in two levels of at most 64: the core hands the alternatives
// of a position to other workers through a bounded queue, and a position with thousands of
// alternatives overflows it (harmless, but some inputs are then executed twice and the execution
// count varies from run to run).
size_t wide_pick(vf::Ctx &c, const char *hi_label, const char *lo_label, size_t n) {
  const size_t W = 64;
  size_t hi = (size_t)c.pick(hi_label, (int)((n + W - 1) / W));
  size_t lo = (size_t)c.pick(lo_label, (int)std::min(W, n - hi * W));
  return hi * W + lo;
}

void run(vf::Ctx &c) {
  int nf = (int)g_fam.size() + 1;
  int fi = c.pick("family", nf);
  if (fi < (int)g_fam.size()) {
    const Family &f = g_fam[fi];
    size_t idx = wide_pick(c, "block", "input", f.inputs.size());
    int which_ctx = c.pick("ctx", 2);
    judge(c, f.name, f.inputs[idx], which_ctx);
  } else {
    // double mutations: first mutation over the full class set, second over the reduced one
    const std::string &seed = g_seeds2[c.pick("seed", (int)g_seeds2.size())];
    std::vector<std::string> m1 = vfq::mutations(seed, g_classes1);
    const std::string &a = m1[wide_pick(c, "m1-block", "m1", m1.size())];
    std::vector<std::string> m2 = vfq::mutations(a, g_classes2);
    const std::string &b = m2[wide_pick(c, "m2-block", "m2", m2.size())];
    judge(c, "mut2", b, 0);
  }
}

}  // namespace

VF_MAIN("c15_extract", "C15", setup, run)
