CLAIMS["C07"] = dict(
    engine="seq",
    technique="explicit-state exploration of value multisets, interval splits and reader schedules on the real aggregations and the real MeterProvider pipeline "
              "against a by-definition reference histogram (bounded multiset size)",
    text="Seam 1 (c07_hist_agg): real LongHistogramAggregation / DoubleHistogramAggregation for 13 boundary lists ([], [0], [1], [0,1], [0.5,1.5], [0,5,10], the default 15, "
         "[2^52], [1e300], [DBL_MIN], the duplicate boundary [1,1], and for int64 only [2^53] and [2^62]) x {record_min_max on, off, no configuration}: every multiset of <= 3 (quick) / <= 5 (thorough) values over the per-list alphabet "
         "(0, denormal-min, DBL_MIN, 1, 1e300, every boundary and its two neighbouring doubles; for integers 0, 1, 2^53, boundary and boundary+-1, including 2^53+1 and 2^62+-1 which are not exact doubles; "
         "integer multisets whose exact sum exceeds INT64_MAX are not formed), every assignment of its "
         "elements to three parts; the point of each part, of the single histogram of all values, and of the merge of the parts in three association orders must have "
         "bucket i = number of boundaries strictly below v (for integers decided on exact integer arithmetic), sum of buckets = count, exact sum on exactly summable multisets (rounding tolerance otherwise), exact min/max; "
         "merged point == single-histogram point. Seam 2 (c07_hist_meter): the same configurations through MeterProvider + View (View(kHistogram, config), View(kDefault, config), and for the default list no view / "
         "View(kHistogram, nullptr); the two added forms with multisets of <= 2 (quick) / <= 3 (thorough) values) + UInt64/Double histogram instruments with "
         "1-2 harness pull readers (delta, cumulative): every multiset of <= 3 (quick) / <= 4 (thorough) values of a reduced alphabet split in every way over three collection "
         "cycles, every schedule of which reader collects after which cycle; each collected point against the reference histogram of the values that reader is due.",
    note=SEQ_NOTE)
