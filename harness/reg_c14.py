# C14: additional harnesses (the main entry c14_tracestate lives in registry.py).
# c14_noregex builds the same harness source against trace_state.h compiled with OPENTELEMETRY_HAVE_WORKING_REGEX forced to 0
# under another class name (harness/c14_noregex.cc), i.e. the hand-written IsValidKeyNonRegEx / IsValidValueNonRegEx that
# the normal build of this repository never compiles.
H("c14_noregex", "C14", "seq", ["harness/c14_tracestate.cc", "harness/c14_noregex.cc"], cxxflags=["-DC14_NOREGEX"],
  args={"quick": ["--depth=2"], "thorough": ["--depth=3"]},
  what="the no-regex variant of TraceState (trace_state.h re-compiled with OPENTELEMETRY_HAVE_WORKING_REGEX=0 under another class name): IsValidKey / IsValidValue on every "
       "byte value at every position of a simple key, a vendor@tenant key and a value, boundary lengths (256/257, tenant 241/242, system id 14/15) and vendor@tenant forms "
       "against the W3C reference (three-valued) and against the regex variant (counted); one Set of each of these strings on start states followed by Get / round trip / Delete; "
       "the Set/Delete/Get/round-trip histories (one level shallower) and the header generator of c14_tracestate on this variant",
  design_ref="5/C14")
