// C13: four-argument EmitLogRecord call sites, part 1 of 3 (see c13_sites.h).
#include "c13_sites.h"
namespace c13 {
static const auto kTable = make_table<false, 4, 1 * kSites4PerPart>(std::make_index_sequence<kSites4PerPart>{});
#if 1 == 0
const SiteFn *sites4_part0() { return kTable.data(); }
#elif 1 == 1
const SiteFn *sites4_part1() { return kTable.data(); }
#else
const SiteFn *sites4_part2() { return kTable.data(); }
#endif
}  // namespace c13
