// C19 (c)+(d): scope configurators disable exactly the scopes their rules describe (first match wins),
// and a provider returns the same tracer / meter / logger for the same identity (Engine B).
// (c) every rule list up to the length bound over {name-equals x, name-equals y, custom matcher on the
//     version, custom matcher on an attribute} x {enable, disable} with both defaults, built with the
//     real ScopeConfigurator::Builder, on a real TracerProvider / MeterProvider / LoggerProvider; four
//     scope identities each emit one span / measurement / log record through a simple processor (pull
//     reader) into a harness exporter. Oracle: exactly the scopes the first matching rule (else the
//     default) enables arrive, each once, with its own scope identity.
//     Meters: the enabled check is copied into every Meter::Create* - every instrument kind (c19_kinds.h)
//     runs against the short rule lists. Loggers: every scope emits through the three ways the SDK logger
//     can be asked to (helper, CreateLogRecord + EmitLogRecord(record), a record made elsewhere).
// (d) every ordered pair of identity requests: same object iff equal in every component, also when the
//     scope is disabled.
// Compiled a second time under ABI v2 (registry entry c19_scopes_abi2): GetTracer / GetMeter take scope
// attributes, so the attribute matcher and the attribute component of the identity apply to all signals.
#include <opentelemetry/logs/logger.h>
#include <opentelemetry/logs/severity.h>
#include <opentelemetry/sdk/instrumentationscope/scope_configurator.h>
#include <opentelemetry/sdk/logs/exporter.h>
#include <opentelemetry/sdk/logs/logger.h>
#include <opentelemetry/sdk/logs/logger_config.h>
#include <opentelemetry/sdk/logs/logger_context.h>
#include <opentelemetry/sdk/logs/logger_provider.h>
#include <opentelemetry/sdk/logs/logger_provider_factory.h>
#include <opentelemetry/sdk/metrics/meter_context.h>
#include <opentelemetry/sdk/metrics/meter_provider_factory.h>
#include <opentelemetry/sdk/trace/tracer_context.h>
#include <opentelemetry/sdk/trace/tracer_provider_factory.h>
#include <opentelemetry/sdk/logs/read_write_log_record.h>
#include <opentelemetry/sdk/logs/simple_log_record_processor.h>
#include <opentelemetry/sdk/metrics/meter_config.h>
#include <opentelemetry/sdk/trace/exporter.h>
#include <opentelemetry/sdk/trace/simple_processor.h>
#include <opentelemetry/sdk/trace/span_data.h>
#include <opentelemetry/sdk/trace/tracer.h>
#include <opentelemetry/sdk/trace/tracer_config.h>
#include <opentelemetry/sdk/trace/tracer_provider.h>

#include "c19_kinds.h"

namespace {
using namespace c19;
namespace st = opentelemetry::sdk::trace;
namespace sl = opentelemetry::sdk::logs;
using opentelemetry::sdk::instrumentationscope::InstrumentationScope;
using opentelemetry::sdk::instrumentationscope::ScopeConfigurator;
using AttrMap = std::map<std::string, std::string>;
// ABI v2: GetTracer / GetMeter take scope attributes like GetLogger does (registry entry c19_scopes_abi2)
#if OPENTELEMETRY_ABI_VERSION_NO >= 2
constexpr bool kAttrsEverywhere = true;
#else
constexpr bool kAttrsEverywhere = false;
#endif
bool has_attrs(int signal) { return signal == 2 || kAttrsEverywhere; }

std::string scope_str(const InstrumentationScope &s) {
  std::string a;
  std::map<std::string, std::string> sorted;
  for (auto &kv : s.GetAttributes()) sorted[kv.first] = owned_str(kv.second);
  for (auto &kv : sorted) a += (a.empty() ? "" : ",") + kv.first + "=" + kv.second;
  return s.GetName() + "|" + s.GetVersion() + "|" + s.GetSchemaURL() + "|{" + a + "}";
}

// ---- harness exporters ----------------------------------------------------------------------------------
struct Sink { std::vector<std::string> items; int recordables_made = 0; };  // "scope-identity#payload"
class SpanSink : public st::SpanExporter {
 public:
  explicit SpanSink(Sink *s) : s_(s) {}
  std::unique_ptr<st::Recordable> MakeRecordable() noexcept override { return std::unique_ptr<st::Recordable>(new st::SpanData()); }
  ot::sdk::common::ExportResult Export(const nostd::span<std::unique_ptr<st::Recordable>> &spans) noexcept override {
    for (auto &r : spans) {
      auto *d = static_cast<st::SpanData *>(r.get());
      s_->items.push_back(scope_str(d->GetInstrumentationScope()) + "#" + std::string(d->GetName()));
    }
    return ot::sdk::common::ExportResult::kSuccess;
  }
  bool ForceFlush(std::chrono::microseconds) noexcept override { return true; }
  bool Shutdown(std::chrono::microseconds) noexcept override { return true; }

 private:
  Sink *s_;
};
class LogSink : public sl::LogRecordExporter {
 public:
  explicit LogSink(Sink *s) : s_(s) {}
  std::unique_ptr<sl::Recordable> MakeRecordable() noexcept override { ++s_->recordables_made; return std::unique_ptr<sl::Recordable>(new sl::ReadWriteLogRecord()); }
  ot::sdk::common::ExportResult Export(const nostd::span<std::unique_ptr<sl::Recordable>> &recs) noexcept override {
    for (auto &r : recs) {
      auto *d = static_cast<sl::ReadWriteLogRecord *>(r.get());
      const auto &b = d->GetBody();
      std::string body = nostd::holds_alternative<nostd::string_view>(b) ? std::string(nostd::get<nostd::string_view>(b)) : nostd::holds_alternative<const char *>(b) ? std::string(nostd::get<const char *>(b)) : "?";
      s_->items.push_back(scope_str(d->GetInstrumentationScope()) + "#" + body);
    }
    return ot::sdk::common::ExportResult::kSuccess;
  }
  bool ForceFlush(std::chrono::microseconds) noexcept override { return true; }
  bool Shutdown(std::chrono::microseconds) noexcept override { return true; }

 private:
  Sink *s_;
};

// ---- identities ---------------------------------------------------------------------------------------------
struct Ident {
  std::string logger_name;  // loggers only
  std::string name, version, schema;
  AttrMap attrs;  // loggers only under ABI v1 (GetTracer / GetMeter take no attributes there)
  bool empty_iterable = false;  // ABI v2 tracers / meters: "no attributes" passed as an empty iterable instead of nullptr (the same identity)
};
// what the provider must treat as the identity of a request
std::string key(int signal, const Ident &i) {
  std::string a;
  for (auto &kv : i.attrs) a += kv.first + "=" + kv.second + ",";
  if (signal != 2) return i.name + "|" + i.version + "|" + i.schema + (kAttrsEverywhere ? "|" + a : "");
  return i.logger_name + "#" + (i.name.empty() ? i.logger_name : i.name) + "|" + i.version + "|" + i.schema + "|" + a;  // an empty library name defaults to the logger name
}
std::string show(int signal, const Ident &i) {
  std::string a;
  for (auto &kv : i.attrs) a += kv.first + "=" + kv.second + ",";
  return (signal == 2 ? "logger '" + i.logger_name + "' " : std::string()) + "('" + i.name + "','" + i.version + "','" + i.schema + "'" + (has_attrs(signal) ? ",{" + a + "}" + (signal != 2 && i.attrs.empty() ? (i.empty_iterable ? "(empty iterable)" : "(nullptr)") : "") : "") + ")";
}
const char *const kSignal[3] = {"tracer", "meter", "logger"};
int g_signals = 3;

// ---- one provider of each kind behind a common face -----------------------------------------------------------
struct Rule { int matcher; bool enable; std::string name; /* matcher 0: the scope name to compare with */ };
const char *const kMatcher[3] = {"name==", "version==2.0", "has-attribute(tier)"};
const std::string &scope_name_of(const Ident &i, int signal) { return signal == 2 && i.name.empty() ? i.logger_name : i.name; }
bool rule_matches(const Rule &r, const Ident &i, int signal) {
  switch (r.matcher) {
    case 0: return scope_name_of(i, signal) == r.name;
    case 1: return i.version == "2.0";
    default: return has_attrs(signal) && i.attrs.count("tier") > 0;
  }
}
bool model_enabled(const std::vector<Rule> &rules, bool dflt, const Ident &i, int signal) {
  for (auto &r : rules)
    if (rule_matches(r, i, signal)) return r.enable;  // first match wins
  return dflt;
}
// Rule names are handed to the builder in exact-size heap blocks that are overwritten as soon as the call
// returns and stay allocated until the execution ends: a configurator that kept the caller's view instead
// of a copy shows up as a rule that no longer matches (deterministic, no undefined behaviour).
std::vector<std::unique_ptr<vfq::HeapStr>> g_rule_names;
template <class Config>
std::unique_ptr<ScopeConfigurator<Config>> build_configurator(const std::vector<Rule> &rules, bool dflt) {
  typename ScopeConfigurator<Config>::Builder b(dflt ? Config::Enabled() : Config::Disabled());
  for (auto &r : rules) {
    Config cfg = r.enable ? Config::Enabled() : Config::Disabled();
    if (r.matcher == 0) {
      g_rule_names.emplace_back(new vfq::HeapStr(r.name));
      b.AddConditionNameEquals(g_rule_names.back()->view(), cfg);
      g_rule_names.back()->scribble();
    } else if (r.matcher == 1) b.AddCondition([](const InstrumentationScope &s) { return s.GetVersion() == "2.0"; }, cfg);
    else b.AddCondition([](const InstrumentationScope &s) { return s.GetAttributes().count("tier") > 0; }, cfg);
  }
  return std::make_unique<ScopeConfigurator<Config>>(b.Build());
}

struct Fixture {
  int signal;
  Sink sink;
  std::unique_ptr<st::TracerProvider> tp;
  std::unique_ptr<sm::MeterProvider> mp;
  std::unique_ptr<sl::LoggerProvider> lp;
  sl::LoggerContext *lctx = nullptr;
  std::shared_ptr<PullReader> reader;
  // handles are kept alive until the fixture dies
  std::vector<nostd::shared_ptr<ot::trace::Tracer>> tracers;
  std::vector<nostd::shared_ptr<mapi::Meter>> meters;
  std::vector<nostd::shared_ptr<ot::logs::Logger>> loggers;
  std::vector<std::unique_ptr<Holder>> instruments;
  int last_kind = 0;

  // `ctor`: which way the provider is constructed (every public constructor and the factories take the configurator and must
  // honour it): 0 = the path used since the first version of this harness; the others rotate with the rule list
  Fixture(int sig, const std::vector<Rule> &rules, bool dflt, int ctor = 0) : signal(sig) {
    const auto &res = ot::sdk::resource::Resource::GetEmpty();
    if (sig == 0 && ctor % 4 != 0) {
      std::unique_ptr<st::SpanProcessor> proc(new st::SimpleSpanProcessor(std::unique_ptr<st::SpanExporter>(new SpanSink(&sink))));
      std::vector<std::unique_ptr<st::SpanProcessor>> procs;
      procs.emplace_back(std::move(proc));
      std::unique_ptr<st::Sampler> sampler(new st::AlwaysOnSampler);
      std::unique_ptr<st::IdGenerator> idgen(new st::RandomIdGenerator());
      auto conf = build_configurator<st::TracerConfig>(rules, dflt);
      if (ctor % 4 == 1) tp.reset(new st::TracerProvider(std::move(procs), res, std::move(sampler), std::move(idgen), std::move(conf)));
      else if (ctor % 4 == 2) tp.reset(new st::TracerProvider(std::unique_ptr<st::TracerContext>(new st::TracerContext(std::move(procs), res, std::move(sampler), std::move(idgen), std::move(conf)))));
      else tp.reset(static_cast<st::TracerProvider *>(st::TracerProviderFactory::Create(std::move(procs), res, std::move(sampler), std::move(idgen), std::move(conf)).release()));
    } else if (sig == 1 && ctor % 3 != 0) {
      std::unique_ptr<sm::ViewRegistry> views(new sm::ViewRegistry());
      auto conf = build_configurator<sm::MeterConfig>(rules, dflt);
      if (ctor % 3 == 1) mp.reset(new sm::MeterProvider(std::unique_ptr<sm::MeterContext>(new sm::MeterContext(std::move(views), res, std::move(conf)))));
      else mp.reset(static_cast<sm::MeterProvider *>(sm::MeterProviderFactory::Create(std::move(views), res, std::move(conf)).release()));
      reader = std::make_shared<PullReader>();
      mp->AddMetricReader(reader);
    } else if (sig == 2 && ctor % 4 != 0) {
      std::vector<std::unique_ptr<sl::LogRecordProcessor>> procs;
      procs.emplace_back(new sl::SimpleLogRecordProcessor(std::unique_ptr<sl::LogRecordExporter>(new LogSink(&sink))));
      auto conf = build_configurator<sl::LoggerConfig>(rules, dflt);
      if (ctor % 4 == 1) lp.reset(new sl::LoggerProvider(std::move(procs[0]), res, std::move(conf)));
      else if (ctor % 4 == 2) lp.reset(new sl::LoggerProvider(std::move(procs), res, std::move(conf)));
      else lp.reset(static_cast<sl::LoggerProvider *>(sl::LoggerProviderFactory::Create(std::move(procs), res, std::move(conf)).release()));
      lctx = lp->context_.get();
    } else if (sig == 0)
      tp.reset(new st::TracerProvider(std::unique_ptr<st::SpanProcessor>(new st::SimpleSpanProcessor(std::unique_ptr<st::SpanExporter>(new SpanSink(&sink)))), res,
                                      std::unique_ptr<st::Sampler>(new st::AlwaysOnSampler), std::unique_ptr<st::IdGenerator>(new st::RandomIdGenerator()),
                                      build_configurator<st::TracerConfig>(rules, dflt)));
    else if (sig == 1) {
      mp.reset(new sm::MeterProvider(std::unique_ptr<sm::ViewRegistry>(new sm::ViewRegistry()), res, build_configurator<sm::MeterConfig>(rules, dflt)));
      reader = std::make_shared<PullReader>();
      mp->AddMetricReader(reader);
    } else {
      // the provider is built from a context of the harness so that the harness can ask the same pipeline for a
      // recordable (LoggerContext::GetProcessor) - what an enabled logger of this provider hands out
      std::vector<std::unique_ptr<sl::LogRecordProcessor>> procs;
      procs.emplace_back(new sl::SimpleLogRecordProcessor(std::unique_ptr<sl::LogRecordExporter>(new LogSink(&sink))));
      std::unique_ptr<sl::LoggerContext> ctx(new sl::LoggerContext(std::move(procs), res, build_configurator<sl::LoggerConfig>(rules, dflt)));
      lctx = ctx.get();
      lp.reset(new sl::LoggerProvider(std::move(ctx)));
    }
  }
  // returns the address of the object the provider hands out for this identity
  const void *get(const Ident &i) {
#if OPENTELEMETRY_ABI_VERSION_NO >= 2
    ot::common::KeyValueIterableView<AttrMap> view(i.attrs);
    const ot::common::KeyValueIterable *attrs = i.attrs.empty() && !i.empty_iterable ? nullptr : &view;
    if (signal == 0) { tracers.push_back(tp->GetTracer(i.name, i.version, i.schema, attrs)); return tracers.back().get(); }
    if (signal == 1) { meters.push_back(mp->GetMeter(i.name, i.version, i.schema, attrs)); return meters.back().get(); }
#else
    if (signal == 0) { tracers.push_back(tp->GetTracer(i.name, i.version, i.schema)); return tracers.back().get(); }
    if (signal == 1) { meters.push_back(mp->GetMeter(i.name, i.version, i.schema)); return meters.back().get(); }
#endif
    loggers.push_back(lp->GetLogger(i.logger_name, i.name, i.version, i.schema, ot::common::KeyValueIterableView<AttrMap>(i.attrs)));
    return loggers.back().get();
  }
  // Telemetry through the most recently obtained handle. Tracer: one span. Meter: one instrument of the given
  // kind (c19_kinds.h) with one measurement. Logger: one record through each way the SDK logger can be asked to
  // emit - the enabled checks of Logger::CreateLogRecord and Logger::EmitLogRecord(record) are separate copies:
  //   <tag>           EmitLogRecord(severity, body)            (API helper: CreateLogRecord + EmitLogRecord(record))
  //   <tag>.two-step  CreateLogRecord(), fill, EmitLogRecord(record)
  //   <tag>.foreign   a record this logger did not create (the pipeline's recordable type, as an enabled logger of the
  //                   same provider would hand out), emitted through this logger: it would carry this logger's scope
  int recordables_for_own_records = 0;
  void emit(const std::string &tag, int kind) {
    if (signal == 0) tracers.back()->StartSpan(tag)->End();
    else if (signal == 1) {
      instruments.emplace_back(new Holder());
      last_kind = kind;
      create(kind, *meters.back(), "c_" + tag, "", "", *instruments.back());
      if (!instruments.back()->null_returned) measure(kind, *instruments.back());
    } else {
      auto &lg = loggers.back();
      const int made0 = sink.recordables_made;
      lg->EmitLogRecord(ot::logs::Severity::kInfo, nostd::string_view(tag));
      const std::string t2 = tag + ".two-step", t3 = tag + ".foreign";
      auto rec = lg->CreateLogRecord();
      if (rec) { rec->SetSeverity(ot::logs::Severity::kInfo); rec->SetBody(nostd::string_view(t2)); }
      lg->EmitLogRecord(std::move(rec));
      recordables_for_own_records = sink.recordables_made - made0;
      nostd::unique_ptr<ot::logs::LogRecord> foreign(lctx->GetProcessor().MakeRecordable().release());
      foreign->SetSeverity(ot::logs::Severity::kInfo);
      foreign->SetBody(nostd::string_view(t3));
      lg->EmitLogRecord(std::move(foreign));
    }
  }
  std::vector<std::string> arrived() {
    if (signal != 1) return sink.items;
    std::vector<std::string> out;
    for (auto &s : collect(*reader)) {
      // scope identity of a metric stream: the reader sees name|version|schema and the scope attributes
      const bool exact = s.npoints == 1 && s.points == measured_points(last_kind) && s.type == (int)kKinds[last_kind].type && s.value_type == (int)kKinds[last_kind].vt;
      out.push_back(s.scope + "|{" + s.scope_attrs + "}#" + s.name.substr(2) + (exact ? "" : vf::sfmt("!type=%d,points=", s.type) + s.points));
    }
    return out;
  }
};

// ---- (c) scope configurators ------------------------------------------------------------------------------
const Ident kScopes[4] = {
    {"L0", "x", "1.0", "", {}},
    {"L1", "y", "", "", {}},
    {"L2", "x", "2.0", "https://s/2", {}},
    {"L3", "z", "", "", {{"tier", "gold"}}},  // the attribute exists for loggers only; version-less on purpose
};
const Ident kScopeZ2 = {"L3", "z", "2.0", "", {}};  // ABI v1 tracers / meters: the fourth scope is told apart by its version
const Ident &scope_of(int i, int signal) { return (i == 3 && !has_attrs(signal)) ? kScopeZ2 : kScopes[i]; }
const char *const kLogVariant[3] = {"", ".two-step", ".foreign"};

void run_configurator(vf::Ctx &c) {
  int signal = c.pick("signal", g_signals);
  bool dflt = c.pick("default", 2) == 0;
  int maxlen = (int)strtol(c.opt().get("rules", c.thorough() ? "5" : "4").c_str(), nullptr, 10);
  int len = c.pick("rules", maxlen + 1);
  std::vector<Rule> rules;
  std::string desc = vf::sfmt("%s provider, default %s, rules [", kSignal[signal], dflt ? "enabled" : "disabled");
  for (int i = 0; i < len; ++i) {
    int r = c.pick("rule", 8);
    int m = r / 2;  // 0: name==x, 1: name==y, 2: version==2.0, 3: has-attribute(tier)
    rules.push_back({m <= 1 ? 0 : m - 1, r % 2 == 0, m == 0 ? "x" : m == 1 ? "y" : ""});
    desc += std::string(i ? ", " : "") + kMatcher[rules.back().matcher] + rules.back().name + (r % 2 == 0 ? "->enable" : "->disable");
  }
  desc += "]";
  // meters: the enabled check is a separate copy in every Meter::Create*; the rule list decides the flag once per
  // meter, so every kind runs against the short lists (both flag values, every scope) and one kind per family
  // against the next length
  int kind = 0;
  if (signal == 1) {
    const int all_upto = c.thorough() ? 2 : 1;
    const int nk = len <= all_upto ? kNumKinds : len == all_upto + 1 ? 4 : 1;
    if (nk > 1) kind = c.pick("kind", nk);
    desc += std::string(", instruments Create") + kKinds[kind].label;
  }
  c.stage("build-provider");
  // the construction path rotates with the rule list (no extra choice): every path meets enabling and disabling rule lists
  int ctor = (int)rules.size() + (dflt ? 0 : 1);
  for (auto &r : rules) ctor += r.matcher + (r.enable ? 2 : 0);
  desc += vf::sfmt(", provider construction path %d", ctor % (signal == 1 ? 3 : 4));
  Fixture fx(signal, rules, dflt, ctor);
  c.step();
  std::vector<std::string> want;
  std::vector<const void *> first;
  c.stage("emit");
  for (int i = 0; i < 4; ++i) {
    const Ident &id = scope_of(i, signal);
    first.push_back(fx.get(id));
    fx.emit(vf::sfmt("t%d", i), kind);
    c.step();
    const bool en = model_enabled(rules, dflt, id, signal);
    if (en) {
      std::string a;
      for (auto &kv : id.attrs) a += (a.empty() ? "" : ",") + kv.first + "=" + kv.second;
      for (int v = 0; v < (signal == 2 ? 3 : 1); ++v)
        want.push_back(id.name + "|" + id.version + "|" + id.schema + "|{" + (has_attrs(signal) ? a : "") + "}#" + vf::sfmt("t%d", i) + kLogVariant[v]);
    }
    // not telemetry, hence only counted: a disabled logger that still asks the pipeline for a recordable
    if (signal == 2 && !en && fx.recordables_for_own_records) c.counted("disabled-logger:recordable-requested-from-pipeline");
  }
  c.stage("collect");
  std::vector<std::string> got = fx.arrived();
  std::sort(got.begin(), got.end());
  std::sort(want.begin(), want.end());
  std::string g, w;
  for (auto &s : got) g += s + " ";
  for (auto &s : want) w += s + " ";
  if (got != want) {
    // name what is wrong: telemetry of a disabled scope arrived / arrived twice / carries another identity / is missing
    auto tag = [](const std::string &item) { return item.substr(item.rfind('#')); };
    std::string ctx = desc + ": arrived {" + g + "} expected {" + w + "}";
    for (size_t i = 0; i < got.size(); ++i) {
      if (std::binary_search(want.begin(), want.end(), got[i])) {
        if (i > 0 && got[i - 1] == got[i]) c.fail(std::string("C19:scope:") + kSignal[signal] + ":telemetry-duplicated", ctx);
        continue;
      }
      bool tag_wanted = false;
      for (auto &x : want) tag_wanted |= tag(x) == tag(got[i]);
      // which way of emitting got through (loggers), which instrument kind (meters)
      std::string how;
      if (signal == 2 && got[i].size() > 9 && got[i].compare(got[i].size() - 9, 9, ".two-step") == 0) how = ":two-step";
      if (signal == 2 && got[i].size() > 8 && got[i].compare(got[i].size() - 8, 8, ".foreign") == 0) how = ":record-made-elsewhere";
      if (signal == 1 && kind != 0) how = std::string(":") + kKinds[kind].label;
      c.fail(std::string("C19:scope:") + kSignal[signal] + (tag_wanted ? ":wrong-scope-identity" : ":disabled-scope-produced-telemetry" + how), ctx);
    }
    std::string how;
    if (signal == 1 && kind != 0) how = std::string(":") + kKinds[kind].label;
    if (signal == 2)
      for (auto &x : want)
        if (!std::binary_search(got.begin(), got.end(), x)) {
          if (x.size() > 9 && x.compare(x.size() - 9, 9, ".two-step") == 0) how = ":two-step";
          if (x.size() > 8 && x.compare(x.size() - 8, 8, ".foreign") == 0) how = ":record-made-elsewhere";
          break;
        }
    c.fail(std::string("C19:scope:") + kSignal[signal] + ":enabled-scope-lost-telemetry" + how, ctx);
  }
  // the configuration is computed once per scope: asking again gives the same object, in the same state
  c.stage("re-request");
  for (int i = 0; i < 4; ++i) {
    const Ident &id = scope_of(i, signal);
    const void *again = fx.get(id);
    if (again != first[i]) {
      bool en = model_enabled(rules, dflt, id, signal);
      if (!en && signal == 2) {
        if (!c.report("C19:identity:logger:disabled-scope-not-reused", desc + ": the second GetLogger for the disabled scope " + show(signal, id) + " returned a new object")) return;
      } else
        c.fail(std::string("C19:identity:") + kSignal[signal] + ":same-request-different-object", desc + ": second request for " + show(signal, id) + " returned another object");
    }
  }
  c.state(desc.substr(0, desc.find(',')) + vf::sfmt("|k%d|", kind) + g);
  c.outcome(std::string(kSignal[signal]) + vf::sfmt("|k%d|", kind) + g);
  if (len <= 1 || c.tracing()) c.sample(desc + " => {" + g + "}");
}

// ---- (d) identity -------------------------------------------------------------------------------------------
std::vector<Ident> g_ids[3];
void setup(vf::Options &o) {
  o.split_depth = 3;
  o.deadline_s = o.thorough ? 900 : 100;
  quiet_sdk_log();
  g_signals = (int)strtol(o.get("signals", "3").c_str(), nullptr, 10);  // c19_scopes_abi2: tracers and meters only (the logger code does not depend on the ABI version)
  std::vector<AttrMap> attrs = {{}, {{"k", "1"}}, {{"k", "2"}}, {{"j", "1"}}};
  for (const char *n : {"a", "b"})
    for (const char *v : {"", "1"})
      for (const char *s : {"", "u"}) {
        if (!kAttrsEverywhere) {
          g_ids[0].push_back({"", n, v, s, {}});
          g_ids[1].push_back({"", n, v, s, {}});
          continue;
        }
        for (int sig = 0; sig < 2; ++sig) {
          for (auto &a : attrs) g_ids[sig].push_back({"", n, v, s, a});
          g_ids[sig].push_back({"", n, v, s, {}, true});  // no attributes, handed over as an empty iterable
        }
      }
  if (o.thorough) attrs.push_back({{"j", "1"}, {"k", "1"}});
  for (const char *ln : {"a", "L"})
    for (const char *n : {"", "a", "b"})
      for (const char *v : {"", "1"})
        for (const char *s : {"", "u"})
          for (auto &a : attrs) g_ids[2].push_back({ln, n, v, s, a});
}

void run_identity(vf::Ctx &c) {
  int signal = c.pick("signal", g_signals);
  int mode = c.pick("configurator", 3);  // 0: everything enabled, 1: scope name "a" disabled, 2: everything disabled
  std::vector<Rule> rules;
  if (mode == 1) rules.push_back({0, false, "a"});
  const Ident &r1 = c.pick_from("first", g_ids[signal]);
  const Ident &r2 = c.pick_from("second", g_ids[signal]);
  c.stage("build-provider");
  std::unique_ptr<Fixture> fx(new Fixture(signal, rules, mode != 2));
  auto disabled = [&](const Ident &i) { return !model_enabled(rules, mode != 2, i, signal); };
  c.stage("requests");
  const void *p1 = fx->get(r1), *p2 = fx->get(r2), *p3 = fx->get(r1), *p4 = fx->get(r2);
  c.step(4);
  std::string desc = vf::sfmt("%s provider (%s): requests A=", kSignal[signal], mode == 0 ? "all scopes enabled" : mode == 1 ? "scopes named 'a' disabled" : "all scopes disabled") + show(signal, r1) +
                     " B=" + show(signal, r2) + " A B";
  bool same = key(signal, r1) == key(signal, r2);
  bool known_gap = false;
  auto same_object = [&](const void *a, const void *b, const Ident &id, const char *which) {
    if (a == b) return;
    if (signal == 2 && disabled(id)) {
      if (c.report("C19:identity:logger:disabled-scope-not-reused", desc + ": " + which + " returned different objects for the disabled scope")) { known_gap = true; return; }
    }
    c.fail(std::string("C19:identity:") + kSignal[signal] + ":same-request-different-object", desc + ": " + which + " returned different objects");
  };
  same_object(p1, p3, r1, "the two requests A");
  same_object(p2, p4, r2, "the two requests B");
  if (same) same_object(p1, p2, r1, "requests A and B (equal in every component)");
  else c.check(p1 != p2 && p1 != p4 && p3 != p2, std::string("C19:identity:") + kSignal[signal] + ":different-request-same-object", desc + ": A and B differ but share one object");
  // the handle carries the identity it was requested with
  if (signal == 2) {
    auto *lg = static_cast<sl::Logger *>(fx->loggers[0].get());
    std::string a;
    for (auto &kv : r1.attrs) a += (a.empty() ? "" : ",") + kv.first + "=" + kv.second;
    std::string want = (r1.name.empty() ? r1.logger_name : r1.name) + "|" + r1.version + "|" + r1.schema + "|{" + a + "}";
    c.check(scope_str(lg->GetInstrumentationScope()) == want, "C19:identity:logger:scope-differs", desc + ": logger scope is " + scope_str(lg->GetInstrumentationScope()));
  } else {
    std::string a;
    if (kAttrsEverywhere)
      for (auto &kv : r1.attrs) a += (a.empty() ? "" : ",") + kv.first + "=" + kv.second;
    const std::string want = r1.name + "|" + r1.version + "|" + r1.schema + "|{" + a + "}";
    if (signal == 0) {
      auto *tr = static_cast<st::Tracer *>(fx->tracers[0].get());
      c.check(scope_str(tr->GetInstrumentationScope()) == want, "C19:identity:tracer:scope-differs", desc + ": tracer scope is " + scope_str(tr->GetInstrumentationScope()));
    } else {
      auto *mt = static_cast<sm::Meter *>(fx->meters[0].get());
      c.check(scope_str(*mt->GetInstrumentationScope()) == want, "C19:identity:meter:scope-differs", desc + ": meter scope is " + scope_str(*mt->GetInstrumentationScope()));
    }
  }
  c.state(vf::sfmt("%d|%d|%d|%d|%d|", signal, mode, (int)(p1 == p2), (int)(p1 == p3), (int)(p2 == p4)) + key(signal, r1) + "||" + key(signal, r2));
  c.outcome(vf::sfmt("%d|%d|%d|%d|%d|%d", signal, mode, (int)(p1 == p2), (int)(p1 == p3), (int)(p2 == p4), (int)known_gap));
  if (c.tracing() || (r1.version.empty() && r1.schema.empty() && r2.version.empty() && r2.schema.empty() && r1.attrs.empty() && r2.attrs.empty()))
    c.sample(desc + vf::sfmt(" => A1%sA2, B1%sB2, A1%sB1", p1 == p3 ? "==" : "!=", p2 == p4 ? "==" : "!=", p1 == p2 ? "==" : "!="));
}

void run(vf::Ctx &c) {
  g_rule_names.clear();
  if (c.pick("part", 2) == 0) run_configurator(c);
  else run_identity(c);
}

}  // namespace

VF_MAIN("c19_scopes", "C19", setup, run)
