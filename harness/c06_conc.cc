// C06, concurrent part (Engine A): recorder threads racing collector threads on the real
// MeterProvider / Meter / SyncMetricStorage / TemporalMetricStorage.  Values are distinct powers of
// two, so a reader's points identify exactly which measurements they contain: for a delta reader the
// intervals must partition the measurements (no bit lost, none counted twice), for a cumulative
// reader every collection is a superset of the previous one and the final one is everything.
#include <opentelemetry/sdk/common/global_log_handler.h>
#include <opentelemetry/sdk/metrics/meter_provider.h>
#include <opentelemetry/sdk/metrics/metric_reader.h>
#include <opentelemetry/sdk/metrics/view/view_registry.h>
#include <opentelemetry/sdk/resource/resource.h>

#include "vf_core.h"

namespace nostd = opentelemetry::nostd;
namespace sdkm = opentelemetry::sdk::metrics;
using namespace std::chrono;

namespace {
// reader temporality: 0 delta, 1 cumulative.  same_attrs: 0 = recorder r uses {a = r&1}, 1 = all use {a=0}, 2 = all use the attribute-less Add(value).
// dbl: the instrument is a double counter.  The four SyncMetricStorage::Record* bodies (long / double, with / without attributes) each take the
// storage lock on their own, so each of them is raced against a collection by at least one configuration.
struct Cfg { int readers[2]; int nreaders; int R, n; int collectors; int same_attrs; int dbl; };
std::vector<Cfg> g_cfgs;

class PullReader final : public sdkm::MetricReader {
  sdkm::AggregationTemporality t_;

 public:
  explicit PullReader(sdkm::AggregationTemporality t) : t_(t) {}
  sdkm::AggregationTemporality GetAggregationTemporality(sdkm::InstrumentType) const noexcept override { return t_; }
  bool OnForceFlush(microseconds) noexcept override { return true; }
  bool OnShutDown(microseconds) noexcept override { return true; }
};

struct Shared {
  std::vector<std::vector<int64_t>> seen[2];  // per reader: per collection, value per attribute set index (0: a=0, 1: a=1)
} *g;

void collect(sdkm::MetricReader &r, int ri) {
  std::vector<int64_t> vals(2, 0);
  r.Collect([&](sdkm::ResourceMetrics &rm) {
    for (auto &sm : rm.scope_metric_data_)
      for (auto &md : sm.metric_data_)
        for (auto &pda : md.point_data_attr_) {
          int idx = 0;
          auto it = pda.attributes.find("a");
          if (it != pda.attributes.end() && nostd::holds_alternative<int32_t>(it->second)) idx = nostd::get<int32_t>(it->second);
          else if (it != pda.attributes.end() && nostd::holds_alternative<int64_t>(it->second)) idx = (int)nostd::get<int64_t>(it->second);
          if (nostd::holds_alternative<sdkm::SumPointData>(pda.point_data)) {
            auto &sp = nostd::get<sdkm::SumPointData>(pda.point_data);
            if (nostd::holds_alternative<int64_t>(sp.value_)) vals[idx & 1] += nostd::get<int64_t>(sp.value_);
            else if (nostd::holds_alternative<double>(sp.value_)) {
              // powers of two below 2^53 and their sums are exact doubles; anything else is shown as a foreign bit (bit 62)
              double d = nostd::get<double>(sp.value_);
              vals[idx & 1] += (d >= 0 && d < 1e15 && (double)(int64_t)d == d) ? (int64_t)d : (int64_t(1) << 62);
            }
          }
        }
    return true;
  });
  g->seen[ri].push_back(vals);
  vfs::note("collected", (uint64_t)ri, (uint64_t)(vals[0] * 1000 + vals[1]));
}

void setup(vf::Options &o) {
  opentelemetry::sdk::common::internal_log::GlobalLogHandler::SetLogLevel(opentelemetry::sdk::common::internal_log::LogLevel::None);
  o.fork_per_exec = true;
  o.split_depth = 2;
  o.horizon = 30000;
  bool th = o.thorough;
  o.cap[vf::PREEMPT] = atoi(o.get("k", th ? "3" : "2").c_str());
  o.table_bits = th ? 25 : 23;
  o.deadline_s = atof(o.get("budget", th ? "900" : "90").c_str());
  g_cfgs.push_back({{0, 0}, 1, 2, 1, 1, 1, 0});   // one delta reader (single-reader fast path), 2 recorders x 1 Add, same attribute set
  g_cfgs.push_back({{1, 0}, 1, 2, 1, 1, 1, 0});   // one cumulative reader
  g_cfgs.push_back({{0, 1}, 2, 1, 2, 1, 1, 0});   // delta + cumulative reader, one collector thread (reader 0), recorder does 2 Adds
  g_cfgs.push_back({{0, 0}, 2, 2, 1, 2, 0, 0});   // two delta readers collected from two threads, different attribute sets
  // the other three Record* bodies: attribute-less uint64 Add; double counter with and without attributes
  g_cfgs.push_back({{0, 0}, 1, 2, 1, 1, 2, 0});   // RecordLong(value, ctx): one delta reader, 2 recorders x 1 attribute-less Add
  g_cfgs.push_back({{0, 0}, 1, 2, 1, 1, 1, 1});   // RecordDouble(value, attrs, ctx): one delta reader, double counter, same attribute set
  g_cfgs.push_back({{1, 0}, 1, 2, 1, 1, 2, 1});   // RecordDouble(value, ctx): one cumulative reader, double counter, attribute-less
  if (th) {
    g_cfgs.push_back({{0, 1}, 2, 2, 2, 2, 1, 0});
    g_cfgs.push_back({{1, 1}, 2, 2, 1, 2, 0, 0});
    g_cfgs.push_back({{1, 0}, 1, 2, 1, 1, 2, 0});   // the new bodies with the other temporality / two readers
    g_cfgs.push_back({{1, 0}, 1, 2, 1, 1, 1, 1});
    g_cfgs.push_back({{0, 0}, 1, 2, 1, 1, 2, 1});
    g_cfgs.push_back({{0, 1}, 2, 1, 2, 1, 2, 1});
    g_cfgs.push_back({{0, 0}, 2, 2, 1, 2, 2, 0});
  }
  std::string only = o.get("cfg");
  if (!only.empty()) { Cfg c = g_cfgs[atoi(only.c_str())]; g_cfgs.assign(1, c); }
}

void run(vf::Ctx &c) {
  const Cfg &cfg = g_cfgs[c.pick("config", (int)g_cfgs.size())];
  Shared sh;
  g = &sh;
  c.stage("run");
  vfs::begin(c);
  vfs::set_post_release_points(true);  // also separate plain accesses from the unlock before them
  int64_t total[2] = {0, 0};
  {
    sdkm::MeterProvider provider(std::unique_ptr<sdkm::ViewRegistry>(new sdkm::ViewRegistry()), opentelemetry::sdk::resource::Resource::GetEmpty());
    std::shared_ptr<sdkm::MetricReader> readers[2];
    for (int r = 0; r < cfg.nreaders; ++r) {
      readers[r].reset(new PullReader(cfg.readers[r] ? sdkm::AggregationTemporality::kCumulative : sdkm::AggregationTemporality::kDelta));
      provider.AddMetricReader(readers[r]);
    }
    auto meter = provider.GetMeter("m", "1");
    nostd::unique_ptr<opentelemetry::metrics::Counter<uint64_t>> counter;
    nostd::unique_ptr<opentelemetry::metrics::Counter<double>> dcounter;
    if (cfg.dbl) dcounter = meter->CreateDoubleCounter("c");
    else counter = meter->CreateUInt64Counter("c");
    std::vector<std::thread> ts;
    int bit = 0;
    for (int r = 0; r < cfg.R; ++r) {
      std::vector<std::pair<int64_t, int>> adds;
      for (int i = 0; i < cfg.n; ++i) {
        int attr = cfg.same_attrs ? 0 : r & 1;  // (attribute-less measurements are read back as attribute set 0)
        adds.emplace_back(int64_t(1) << bit, attr);
        total[attr] += int64_t(1) << bit;
        bit++;
      }
      ts.emplace_back([&, adds] {
        for (auto &a : adds) {
          if (cfg.dbl) {
            if (cfg.same_attrs == 2) dcounter->Add((double)a.first);
            else dcounter->Add((double)a.first, {{"a", (int32_t)a.second}});
          } else {
            if (cfg.same_attrs == 2) counter->Add((uint64_t)a.first);
            else counter->Add((uint64_t)a.first, {{"a", (int32_t)a.second}});
          }
          vfs::note("added", (uint64_t)a.first);
        }
      });
    }
    for (int cth = 0; cth < cfg.collectors; ++cth) ts.emplace_back([&, cth] { collect(*readers[cth % cfg.nreaders], cth % cfg.nreaders); });
    for (auto &t : ts) t.join();
    for (int r = 0; r < cfg.nreaders; ++r) collect(*readers[r], r);  // quiescent final collection per reader
  }
  vfs::end();
  c.stage("oracle");
  std::string outcome;
  for (int r = 0; r < cfg.nreaders; ++r) {
    for (int a = 0; a < 2; ++a) {
      int64_t sum = 0, orv = 0, prev = 0;
      for (auto &v : sh.seen[r]) {
        outcome += vf::sfmt("%lld,", (long long)v[a]);
        if (cfg.readers[r] == 0) {  // delta: intervals partition the measurements
          if (v[a] & orv) vfs::fail("C06:conc:delta-counted-twice", vf::sfmt("reader %d attr %d: measurement bits 0x%llx appear in two intervals", r, a, (unsigned long long)(v[a] & orv)));
          if (v[a] & ~total[a]) vfs::fail("C06:conc:delta-foreign-value", vf::sfmt("reader %d attr %d: point 0x%llx is not a sum of recorded measurements", r, a, (unsigned long long)v[a]));
          orv |= v[a];
          sum += v[a];
        } else {  // cumulative: running total, monotone, every measurement at most once
          if ((v[a] & prev) != prev || (v[a] & ~total[a])) vfs::fail("C06:conc:cumulative-not-running-total", vf::sfmt("reader %d attr %d: cumulative 0x%llx after 0x%llx", r, a, (unsigned long long)v[a], (unsigned long long)prev));
          prev = v[a];
          sum = v[a];
        }
      }
      if (sum != total[a])
        vfs::fail(cfg.readers[r] == 0 ? "C06:conc:delta-lost-measurement" : "C06:conc:cumulative-lost-measurement",
                  vf::sfmt("reader %d attr %d: collections add up to 0x%llx, recorded 0x%llx", r, a, (unsigned long long)sum, (unsigned long long)total[a]));
      outcome += ";";
    }
    outcome += "|";
  }
  c.outcome(vf::sfmt("%d:", (int)(&cfg - &g_cfgs[0])) + outcome);
  c.sample(vf::sfmt("%s counter, %s; readers=%d recorders=%dx%d collectors=%d: per-reader collections %s", cfg.dbl ? "double" : "uint64",
                    cfg.same_attrs == 2 ? "attribute-less Add" : "Add with attributes", cfg.nreaders, cfg.R, cfg.n, cfg.collectors, outcome.c_str()));
}
}  // namespace

VF_MAIN("c06_conc", "C06", setup, run)
