// C17: observable callbacks are invoked exactly once per collection and never after removal /
// destruction of the instrument; observable counters and up-down counters convert the reported
// totals correctly per reader and temporality; gauges report the latest value (Engine B).
//
// Part "observable": every history of AddCallback / RemoveCallback / destroy-instrument /
// script(callback) / Collect(reader) up to the depth bound on the real Meter, ObservableRegistry,
// AsyncMetricStorage and TemporalMetricStorage with 1..3 pull readers of mixed temporality.
// Sub-part "second instrument": a second observable instrument "o2" (a gauge of the OTHER value type) on
// the same meter, whose callback is the same (function, state) pair as cb0 of "o".
// Part "syncgauge" (only when compiled with OPENTELEMETRY_ABI_VERSION_NO >= 2): every history of
// Record(value, attrs) / Collect(reader) on a synchronous gauge (all four Record overloads).
#include <algorithm>
#include <chrono>
#include <map>
#include <memory>
#include <string>
#include <vector>

#include <opentelemetry/context/context.h>
#include <opentelemetry/sdk/common/global_log_handler.h>
#include <opentelemetry/sdk/metrics/async_instruments.h>
#include <opentelemetry/sdk/metrics/meter.h>
#include <opentelemetry/sdk/metrics/meter_context.h>
#include <opentelemetry/sdk/metrics/meter_provider.h>
#include <opentelemetry/sdk/metrics/metric_reader.h>
#include <opentelemetry/sdk/metrics/state/async_metric_storage.h>
#include <opentelemetry/sdk/metrics/state/multi_metric_storage.h>
#include <opentelemetry/sdk/metrics/state/observable_registry.h>
#include <opentelemetry/sdk/metrics/state/sync_metric_storage.h>
#include <opentelemetry/sdk/metrics/sync_instruments.h>
#include <opentelemetry/sdk/metrics/view/view_registry.h>
#include <opentelemetry/sdk/resource/resource.h>

#include "seq/vf_seq.h"
#include "vf_clock.h"

namespace sdkm = opentelemetry::sdk::metrics;
namespace api = opentelemetry::metrics;
namespace nostd = opentelemetry::nostd;
namespace common = opentelemetry::common;

namespace {

constexpr int NATTR = 4;  // attribute sets: {}, {a=1}, {a=2}, {a=3}
const char *const kAttrName[NATTR] = {"{}", "{a=1}", "{a=2}", "{a=3}"};

int64_t ts_ns(const common::SystemTimestamp &t) { return t.time_since_epoch().count(); }

// A pull reader whose temporality selector depends on the instrument type it is asked about, as the
// selectors of real exporters do: it answers its configured temporality for the types of the instruments
// of this run and the opposite one for every other type, so a storage that asks with a wrong type gets
// the wrong temporality.
class PullReader : public sdkm::MetricReader {
 public:
  PullReader(bool delta, sdkm::InstrumentType expect, sdkm::InstrumentType expect2) : delta_(delta), expect_(expect), expect2_(expect2) {}
  sdkm::AggregationTemporality GetAggregationTemporality(sdkm::InstrumentType t) const noexcept override {
    bool d = delta_;
    if (t != expect_ && t != expect2_) { asked_wrong_ = true; wrong_type_ = (int)t; d = !d; }
    return d ? sdkm::AggregationTemporality::kDelta : sdkm::AggregationTemporality::kCumulative;
  }
  mutable bool asked_wrong_ = false;
  mutable int wrong_type_ = 0;

 private:
  bool OnForceFlush(std::chrono::microseconds) noexcept override { return true; }
  bool OnShutDown(std::chrono::microseconds) noexcept override { return true; }
  bool delta_;
  sdkm::InstrumentType expect_, expect2_;
};

int attr_id(const std::map<std::string, opentelemetry::sdk::common::OwnedAttributeValue> &m) {
  if (m.empty()) return 0;
  if (m.size() != 1 || m.begin()->first != "a") return -1;
  const auto &v = m.begin()->second;
  if (!nostd::holds_alternative<int32_t>(v)) return -1;
  int32_t x = nostd::get<int32_t>(v);
  return (x >= 1 && x <= 3) ? x : -1;
}

// Values are kept in model units; double instruments report units * 0.25 (exact in binary, so every
// sum and difference is exact whatever the order of evaluation).
struct PointVal {
  bool ok = false;
  int64_t units = 0;
  int64_t sample_ts = 0;  // gauges only
  std::string why;
};
PointVal point_val(bool is_gauge, bool is_double, const sdkm::PointType &pt) {
  PointVal r;
  const sdkm::ValueType *v = nullptr;
  if (is_gauge) {
    if (!nostd::holds_alternative<sdkm::LastValuePointData>(pt)) { r.why = "point is not a LastValuePointData"; return r; }
    const auto &lp = nostd::get<sdkm::LastValuePointData>(pt);
    if (!lp.is_lastvalue_valid_) { r.why = "last value point is marked invalid"; return r; }
    r.sample_ts = ts_ns(lp.sample_ts_);
    v = &lp.value_;
  } else {
    if (!nostd::holds_alternative<sdkm::SumPointData>(pt)) { r.why = "point is not a SumPointData"; return r; }
    v = &nostd::get<sdkm::SumPointData>(pt).value_;
  }
  if (is_double) {
    if (!nostd::holds_alternative<double>(*v)) { r.why = "double instrument reports a non-double value"; return r; }
    double d = nostd::get<double>(*v) * 4.0;
    if (!(d > -1e15 && d < 1e15) || (double)(int64_t)d != d) { r.why = vf::sfmt("value %.17g is not a multiple of the unit", d / 4.0); return r; }
    r.units = (int64_t)d;
  } else {
    if (!nostd::holds_alternative<int64_t>(*v)) { r.why = "integer instrument reports a non-integer value"; return r; }
    r.units = nostd::get<int64_t>(*v);
  }
  r.ok = true;
  return r;
}
std::string show_units(bool is_double, int64_t u) { return is_double ? vf::sfmt("%g", (double)u / 4.0) : vf::sfmt("%lld", (long long)u); }

void hash_map(vf::H128 &h, bool is_gauge, bool is_double, const sdkm::AttributesHashMap *m) {
  if (!m) { h.add(0xdead); return; }
  int64_t v[NATTR] = {0, 0, 0, 0}, ts[NATTR] = {0, 0, 0, 0};
  int has[NATTR] = {0, 0, 0, 0};
  uint64_t other = 0;
  m->GetAllEnteries([&](const sdkm::MetricAttributes &a, sdkm::Aggregation &agg) {
    int id = attr_id(a);
    PointVal p = point_val(is_gauge, is_double, agg.ToPoint());
    if (id < 0) { other += vf::H128::mix((uint64_t)p.units + 77); return true; }
    has[id] = p.ok ? 1 : 2; v[id] = p.units; ts[id] = p.sample_ts ? p.sample_ts - vf::clock_system_base_ns() : 0;
    return true;
  });
  for (int i = 0; i < NATTR; ++i) { h.add((uint64_t)has[i]); h.add((uint64_t)v[i]); h.add((uint64_t)ts[i]); }
  h.add(other);
}

void hash_temporal(vf::H128 &h, bool is_gauge, bool is_double, sdkm::TemporalMetricStorage &t, nostd::span<std::shared_ptr<sdkm::CollectorHandle>> collectors) {
  for (auto &col : collectors) {
    auto u = t.unreported_metrics_.find(col.get());
    if (u == t.unreported_metrics_.end()) h.add(0xa0);
    else {
      h.add(0xa1 + u->second.size());
      for (auto &m : u->second) hash_map(h, is_gauge, is_double, m.get());
    }
    auto l = t.last_reported_metrics_.find(col.get());
    if (l == t.last_reported_metrics_.end()) h.add(0xb0);
    else {
      h.add(0xb1);
      h.add((uint64_t)(ts_ns(l->second.collection_ts) - vf::clock_system_base_ns()));
      hash_map(h, is_gauge, is_double, l->second.attributes_map.get());
    }
  }
}

struct ReaderCfg { int n; bool delta[3]; };
// A run is split into parts with different bounds.
//   rich:  script operations step/decrease on every callback and appear/disappear on cb0 and cb1
//          (otherwise: step on every callback, decrease and appear/disappear on cb0 only)
//   readers: ALL14 = every ordered configuration of 1..3 readers; REP8 = one per multiset of
//          temporalities plus one reordering; REP6 = REP8 without CC and CDD; TWO5 = at most two readers
//   both_starts: histories starting with no callback registered as well as with cb0 registered
//   slim:  callbacks cb0 and cb2 only (same function, different state), script operations on cb0
//          only - the alphabet of the deepest part
//   ties:  clock-tie deviation sub-run (gauges only): the clock stands still during every operation
//          and is advanced by 1 ms before each clock-reading operation, except for at most two
//          "tied" ones per history; everything found here carries the signature prefix C17:clock-tie
//   sec:   second-instrument sub-run: "o2", an observable gauge of the other value type, on the same meter;
//          callbacks cb0 = (fnA,&S0) on "o" and cb3 = the SAME pair (fnA,&S0) on "o2"; histories start with
//          both registered (in either order); operations step(cb0|cb3), Add/Remove(cb0|cb3),
//          Destroy(o), Destroy(o2), Collect
//   orphan: (sync gauge build only) no history: every Record overload on a gauge that was created from a
//          meter whose MeterProvider is gone
enum ReaderSet { ALL14 = 0, REP8 = 1, REP6 = 2, TWO5 = 3 };
struct Part { int depth; bool rich; ReaderSet readers; bool both_starts; bool slim; bool ties; bool sec; bool orphan; bool view; bool cyc; };

// Parts with `view`: the instrument is selected (by type and exact name) by a view that names the instrument type's own
// aggregation EXPLICITLY - AggregationType::kSum for (observable) counters and up-down counters, kLastValue for gauges -
// instead of kDefault. The statement does not depend on how the aggregation was chosen, so model and oracle are the same;
// what changes is the code path (DefaultAggregation::CreateAggregation(type, descriptor, config) instead of the
// per-instrument default).
void add_explicit_view(sdkm::MeterProvider &provider, sdkm::InstrumentType itype, const char *name, bool last_value) {
  std::unique_ptr<sdkm::InstrumentSelector> is(new sdkm::InstrumentSelector(itype, name, ""));
  std::unique_ptr<sdkm::MeterSelector> ms(new sdkm::MeterSelector("m", "", ""));
  std::unique_ptr<sdkm::View> v(new sdkm::View("", "", "", last_value ? sdkm::AggregationType::kLastValue : sdkm::AggregationType::kSum));
  provider.AddView(std::move(is), std::move(ms), std::move(v));
}
std::vector<Part> g_parts;
std::vector<ReaderCfg> g_reader_sets[4];

struct Got {
  bool present = false;
  bool has[NATTR] = {false, false, false, false};
  int64_t val[NATTR] = {0, 0, 0, 0};
};

// Pulls one collection through reader `rd` and sorts the points of the streams `spec[0..n)` by attribute set.
// Returns a non-empty signature if the shape of the result is wrong.
struct StreamSpec { std::string name; bool is_gauge; bool is_double; };
std::string pull(PullReader &rd, const StreamSpec *spec, int n, Got *got, std::string *msg) {
  std::string sig;
  auto problem = [&](const char *s, const std::string &m) { if (sig.empty()) { sig = s; *msg = m; } };
  rd.Collect([&](sdkm::ResourceMetrics &rmx) {
    for (auto &sm : rmx.scope_metric_data_)
      for (auto &md : sm.metric_data_) {
        int si = -1;
        for (int i = 0; i < n; ++i) if (md.instrument_descriptor.name_ == spec[i].name) si = i;
        if (si < 0) { problem("C17:unknown-stream", "a stream named '" + md.instrument_descriptor.name_ + "' was collected"); continue; }
        Got *g = &got[si];
        if (g->present) { problem("C17:duplicate-stream", "stream '" + spec[si].name + "' was handed to the reader twice in one collection"); continue; }
        g->present = true;
        for (auto &p : md.point_data_attr_) {
          int id = attr_id(p.attributes);
          if (id < 0) { problem("C17:unexpected-attributes", "a point with an attribute set that was never reported"); continue; }
          if (g->has[id]) { problem("C17:duplicate-point", vf::sfmt("two points for attribute set %s in one collection of stream '%s'", kAttrName[id], spec[si].name.c_str())); continue; }
          PointVal pv = point_val(spec[si].is_gauge, spec[si].is_double, p.point_data);
          if (!pv.ok) { problem("C17:point-type", pv.why + vf::sfmt(" (stream '%s', attribute set %s)", spec[si].name.c_str(), kAttrName[id])); continue; }
          g->has[id] = true;
          g->val[id] = pv.units;
        }
      }
    return true;
  });
  return sig;
}
std::string pull(PullReader &rd, const std::string &name, bool is_gauge, bool is_double, Got *got, std::string *msg) {
  StreamSpec sp{name, is_gauge, is_double};
  return pull(rd, &sp, 1, got, msg);
}

// ------------------------------------------------------------------------------------------------
// Part 1: observable instruments
// ------------------------------------------------------------------------------------------------
enum OKind { O_COUNTER = 0, O_UPDOWN = 1, O_GAUGE = 2 };
const char *const kOKindName[3] = {"ObservableCounter", "ObservableUpDownCounter", "ObservableGauge"};

constexpr int NSLOT = 3;   // callbacks of instrument "o"
constexpr int NSLOT2 = 4;  // + slot 3 = (fnA, &S0) registered on the second instrument "o2" (sub-run "sec")
// slot -> attribute sets it may report (bit mask over attribute ids) and value functions
//   slot 0 = (fnA, &S0): {} always, {a=1} while toggled on     values v, 10+2v
//   slot 1 = (fnB, &S0): {a=2} (thorough: may be toggled off)  value 20+3v
//   slot 2 = (fnA, &S1): {a=3}                                 value 40+5v
//   slot 3 = (fnA, &S0) on the second instrument "o2": {} only      value 60+7v
// Slots 0/1 share the state pointer and slots 0/2 share the function pointer, so that removal has to
// compare both; slots 0/3 are the identical pair registered on two instruments, so that removal and the
// destruction of one instrument have to compare the instrument. "o2" has the other value type, which is
// how an invocation of the shared pair tells for which of the two instruments it runs.
// rep[j] = how many times ONE invocation of slot j observes each of its attribute sets (1..3): the
// earlier observations carry provisional values (truth + 100, truth + 200), the last one the truth
// ("replays buffered samples oldest first" / "provisional, then corrected total"). The last
// observation of an invocation is what the callback reported. Slot 0 exercises both Observe
// overloads this way ({} through Observe(value), {a=1} through Observe(value, attributes)).
struct World;
struct CbState { World *w; int slotA; int slotB; };
struct World {
  bool is_double = false;
  bool sec = false;
  int calls[NSLOT2] = {0, 0, 0, 0};
  int64_t v[NSLOT2] = {1, 1, 1, 1};
  bool extra0 = false;  // slot 0 also reports {a=1}
  bool on1 = true;      // slot 1 reports {a=2}
  int rep[NSLOT] = {1, 1, 1};
  bool wrong_type = false;
  CbState s0, s1;
  int64_t value(int attr) const {
    switch (attr) {
      case 0: return v[0];
      case 1: return 10 + 2 * v[0];
      case 2: return 20 + 3 * v[1];
      default: return 40 + 5 * v[2];
    }
  }
  // attribute sets slot j reports at the moment
  unsigned mask(int j) const { return j == 0 ? (1u | (extra0 ? 2u : 0u)) : j == 1 ? (on1 ? 4u : 0u) : 8u; }
  int64_t value2() const { return 60 + 7 * v[3]; }  // what slot 3 reports for {} on "o2"
  void invoke(int slot, api::ObserverResult &res) {
    const bool res_double = nostd::holds_alternative<nostd::shared_ptr<api::ObserverResultT<double>>>(res);
    if (sec && slot == 0 && res_double != is_double) {
      // the pair (fnA, &S0) invoked with a result of the other value type: this is its registration on "o2"
      calls[3]++;
      if (res_double) nostd::get<nostd::shared_ptr<api::ObserverResultT<double>>>(res)->Observe((double)value2() / 4.0);
      else nostd::get<nostd::shared_ptr<api::ObserverResultT<int64_t>>>(res)->Observe(value2());
      return;
    }
    calls[slot]++;
    unsigned m = mask(slot);
    for (int a = 0; a < NATTR; ++a) {
      if (!(m & (1u << a))) continue;
      for (int k = rep[slot] - 1; k >= 0; --k) {  // k == 0: the final, true observation
        int64_t u = value(a) + 100 * k;
        if (is_double) {
          if (!nostd::holds_alternative<nostd::shared_ptr<api::ObserverResultT<double>>>(res)) { wrong_type = true; return; }
          auto &o = nostd::get<nostd::shared_ptr<api::ObserverResultT<double>>>(res);
          if (a == 0) o->Observe((double)u / 4.0);
          else o->Observe((double)u / 4.0, {{"a", (int32_t)a}});
        } else {
          if (!nostd::holds_alternative<nostd::shared_ptr<api::ObserverResultT<int64_t>>>(res)) { wrong_type = true; return; }
          auto &o = nostd::get<nostd::shared_ptr<api::ObserverResultT<int64_t>>>(res);
          if (a == 0) o->Observe(u);
          else o->Observe(u, {{"a", (int32_t)a}});
        }
      }
    }
  }
};
void fnA(api::ObserverResult res, void *st) { CbState *s = static_cast<CbState *>(st); s->w->invoke(s->slotA, res); }
void fnB(api::ObserverResult res, void *st) { CbState *s = static_cast<CbState *>(st); s->w->invoke(s->slotB, res); }

void run_observable(vf::Ctx &c) {
  const int part = c.pick("part", (int)g_parts.size());
  const Part &P = g_parts[part];
  const int g_depth = P.depth;
  const OKind kind = P.ties ? O_GAUGE : (OKind)c.pick("kind", 3);  // timestamps matter to last-value aggregation only
  const bool is_double = c.pick("type", 2) == 1;
  if (P.ties) vf::clock_set_autostep_ns(-1000);  // compensates the interposer's 1 us tick per call: the clock stands still
  int ties_used = 0;
  auto S = [&](const std::string &sig) { return P.ties ? "C17:clock-tie:" + sig.substr(4) : sig; };
  const std::vector<ReaderCfg> &g_readers = g_reader_sets[P.readers];
  const int rcfg = c.pick("readers", (int)g_readers.size());
  const bool prereg = P.both_starts ? c.pick("start", 2) == 0 : true;
  const bool sec = P.sec;
  const int sec_order = sec ? c.pick("order", 2) : 0;  // second-instrument sub-run: cb0 registered before cb3, or after
  const ReaderCfg &RC = g_readers[rcfg];
  const int R = RC.n;
  const bool is_gauge = kind == O_GAUGE;
  const bool monotone = kind == O_COUNTER;

  c.stage("setup");
  sdkm::MeterProvider provider(std::unique_ptr<sdkm::ViewRegistry>(new sdkm::ViewRegistry()), opentelemetry::sdk::resource::Resource::GetEmpty());
  const sdkm::InstrumentType itype = kind == O_COUNTER ? sdkm::InstrumentType::kObservableCounter
                                     : kind == O_UPDOWN ? sdkm::InstrumentType::kObservableUpDownCounter
                                                        : sdkm::InstrumentType::kObservableGauge;
  if (P.view) add_explicit_view(provider, itype, "o", kind == O_GAUGE);
  std::vector<std::shared_ptr<PullReader>> readers;
  for (int r = 0; r < R; ++r) {
    readers.push_back(std::make_shared<PullReader>(RC.delta[r], itype, sec ? sdkm::InstrumentType::kObservableGauge : itype));
    provider.AddMetricReader(readers.back());
  }
  nostd::shared_ptr<api::Meter> meter = provider.GetMeter("m");
  sdkm::Meter *sdk_meter = static_cast<sdkm::Meter *>(meter.get());
  World w;
  w.is_double = is_double;
  w.sec = sec;
  w.s0 = CbState{&w, 0, 1};
  w.s1 = CbState{&w, 2, -1};
  nostd::shared_ptr<api::ObservableInstrument> inst;
  if (kind == O_COUNTER) inst = is_double ? meter->CreateDoubleObservableCounter("o") : meter->CreateInt64ObservableCounter("o");
  else if (kind == O_UPDOWN) inst = is_double ? meter->CreateDoubleObservableUpDownCounter("o") : meter->CreateInt64ObservableUpDownCounter("o");
  else inst = is_double ? meter->CreateDoubleObservableGauge("o") : meter->CreateInt64ObservableGauge("o");
  api::ObservableCallbackPtr fn[NSLOT2] = {fnA, fnB, fnA, fnA};
  void *st[NSLOT2] = {&w.s0, &w.s0, &w.s1, &w.s0};
  // the storage stays registered with the meter when the instrument handle is destroyed
  sdkm::AsyncMetricStorage *storage = static_cast<sdkm::AsyncMetricStorage *>(sdk_meter->storage_registry_.begin()->second.get());
  // second instrument: a gauge of the other value type on the same meter
  nostd::shared_ptr<api::ObservableInstrument> inst2;
  sdkm::AsyncMetricStorage *storage2 = nullptr;
  if (sec) {
    inst2 = is_double ? meter->CreateInt64ObservableGauge("o2") : meter->CreateDoubleObservableGauge("o2");
    for (auto &kv : sdk_meter->storage_registry_)
      if (kv.second.get() != static_cast<sdkm::MetricStorage *>(storage)) storage2 = static_cast<sdkm::AsyncMetricStorage *>(kv.second.get());
    c.check(storage2 != nullptr, "C17:second-instrument-has-no-storage", "the meter's registry holds no second storage after a second observable instrument was created");
  }
  const api::ObservableInstrument *const inst_id = inst.get(), *const inst2_id = inst2.get();  // identities (for the state hash) that survive the handles
  auto collectors = provider.context_->GetCollectors();
  const StreamSpec specs[2] = {{"o", kind == O_GAUGE, is_double}, {"o2", true, !is_double}};

  // ---- model ----
  bool alive = true, alive2 = sec;
  bool registered[NSLOT2] = {false, false, false, false};
  bool ever2 = false;
  int64_t last_total2 = 0;  // most recent observation of {} on "o2"
  bool ever[NATTR] = {false, false, false, false};
  int64_t last_total[NATTR] = {0, 0, 0, 0};           // most recent observation per attribute set (any collection)
  int64_t given[3][NATTR] = {{0, 0, 0, 0}, {0, 0, 0, 0}, {0, 0, 0, 0}};  // delta readers: sum of what the reader received so far

  std::string cfgs = vf::sfmt("%s%s%s<%s> readers=", P.ties ? "clock-ties " : "", P.view ? "explicit-aggregation-view " : "", kOKindName[kind], is_double ? "double" : "int64");
  for (int r = 0; r < R; ++r) cfgs += RC.delta[r] ? 'D' : 'C';
  std::string hist, outlog;
  if (sec) {
    cfgs = "second-instrument(o2:ObservableGauge<" + std::string(is_double ? "int64" : "double") + ">) " + cfgs;
    c.stage("AddCallback");
    for (int i = 0; i < 2; ++i) {
      if ((i == 0) == (sec_order == 0)) { inst->AddCallback(fn[0], st[0]); hist += " Add(cb0 on o)"; }
      else { inst2->AddCallback(fn[3], st[3]); hist += " Add(cb3 on o2)"; }
    }
    registered[0] = registered[3] = true;
  } else if (prereg) {
    c.stage("AddCallback");
    inst->AddCallback(fn[0], st[0]);
    registered[0] = true;
    hist = " Add(cb0)";
  }

  auto real_state = [&](vf::H128 &h) {
    h.add(0xc17);
    h.add((uint64_t)part); h.add((uint64_t)kind); h.add(is_double); h.add((uint64_t)rcfg); h.add(alive); h.add(alive2);
    // registered callbacks in invocation order
    for (auto &rec : sdk_meter->observable_registry_->callbacks_) {
      int slot = -1;
      for (int j = 0; j < NSLOT; ++j) if (rec->callback == fn[j] && rec->state == st[j]) slot = j;
      h.add(0x50 + (uint64_t)(slot + 1));
      h.add(rec->instrument == inst_id ? 1 : (sec && rec->instrument == inst2_id) ? 3 : 2);
    }
    hash_map(h, is_gauge, is_double, storage->cumulative_hash_map_.get());
    hash_map(h, is_gauge, is_double, storage->delta_hash_map_.get());
    hash_temporal(h, is_gauge, is_double, storage->temporal_metric_storage_, collectors);
    if (storage2) {
      hash_map(h, true, !is_double, storage2->cumulative_hash_map_.get());
      hash_map(h, true, !is_double, storage2->delta_hash_map_.get());
      hash_temporal(h, true, !is_double, storage2->temporal_metric_storage_, collectors);
    }
    h.add((uint64_t)vf::clock_virtual_ns());
  };
  auto model_state = [&](vf::H128 &h) {
    for (int j = 0; j < NSLOT2; ++j) { h.add(registered[j]); h.add((uint64_t)w.v[j]); }
    h.add(ever2); h.add((uint64_t)last_total2);
    h.add(w.extra0); h.add(w.on1);
    for (int j = 0; j < NSLOT; ++j) h.add((uint64_t)w.rep[j]);
    for (int a = 0; a < NATTR; ++a) { h.add(ever[a]); h.add((uint64_t)last_total[a]); }
    for (int r = 0; r < R; ++r) for (int a = 0; a < NATTR; ++a) h.add((uint64_t)given[r][a]);
  };

  enum OpKind { OP_STEP, OP_DEC, OP_TOGGLE, OP_COLLECT, OP_ADD, OP_REMOVE, OP_DESTROY, OP_COLLECT_TIED, OP_REPEAT };
  struct Op { OpKind k; int arg; };
  vf::H128 cur;
  real_state(cur);
  for (int d = 0; d < g_depth; ++d) {
    const bool last = d == g_depth - 1;
    // enabled operations, simplest first. The last operation of a history is always a Collect (nothing
    // would observe another one). Script operations are offered for registered callbacks only: a
    // change made while a callback is not registered is indistinguishable from the same change made
    // right after it is registered again.
    Op ops[24];
    int n = 0;
    if (P.cyc) {
      // appear / disappear cycles, deeper than the full alphabet reaches: one callback, its second attribute set switched on and
      // off between collections ("several attribute sets appearing and disappearing"): only step / toggle / collect
      if (!last) { ops[n++] = {OP_STEP, 0}; ops[n++] = {OP_TOGGLE, 0}; }
    } else if (!last && sec) {
      if (registered[0]) ops[n++] = {OP_STEP, 0};
      if (registered[3]) ops[n++] = {OP_STEP, 3};
    } else if (!last) {
      for (int j = 0; j < NSLOT; ++j) {
        if (!registered[j] || (P.slim && j != 0)) continue;
        ops[n++] = {OP_STEP, j};
        // Non-monotone observation sequences are part of the quantifier for every kind: a counter's
        // callback may report a lower total than before (the oracle stays "cumulative = reported total,
        // delta = total minus what that reader was last given", possibly negative). For the monotone
        // counter the reported totals themselves are kept >= 0 (a negative total is not a counter value).
        if ((!monotone || w.v[j] > 0) && (j == 0 || P.rich)) ops[n++] = {OP_DEC, j};
        if (j == 0 || (j == 1 && P.rich)) ops[n++] = {OP_TOGGLE, j};
        if (j == 0 || (j == 1 && P.rich)) ops[n++] = {OP_REPEAT, j};  // 1 -> 2 -> 3 -> 1 observations per set and invocation
      }
    }
    for (int r = 0; r < R; ++r) ops[n++] = {OP_COLLECT, r};
    if (P.ties && ties_used < 2 && d > 0)
      for (int r = 0; r < R; ++r) ops[n++] = {OP_COLLECT_TIED, r};
    if (P.cyc) {
    } else if (!last && sec) {
      if (alive) { ops[n++] = {registered[0] ? OP_REMOVE : OP_ADD, 0}; ops[n++] = {OP_DESTROY, 0}; }
      if (alive2) { ops[n++] = {registered[3] ? OP_REMOVE : OP_ADD, 3}; ops[n++] = {OP_DESTROY, 1}; }
    } else if (!last && alive) {
      for (int j = 0; j < NSLOT; ++j)
        if (!(P.slim && j == 1)) ops[n++] = {registered[j] ? OP_REMOVE : OP_ADD, j};
      ops[n++] = {OP_DESTROY, 0};
    }
    if (n > 1) {
      // Sound pruning: the hash covers the registry's callback list, both maps of the async storage,
      // the temporal storage's per-collector stashes and last reports (values, sample and collection
      // timestamps), the clock position, the callbacks' scripts and the model.
      vf::H128 h = cur;
      h.add((uint64_t)(g_depth - d));
      model_state(h);
      h.add((uint64_t)ties_used);
      c.prune_point(h);
    }
    Op op = ops[c.pick("op", n)];
    c.step();
    if (P.ties && op.k == OP_COLLECT) vf::clock_advance_ns(1000000);
    if (op.k == OP_COLLECT_TIED) { ties_used++; hist += " [no clock progress]"; op.k = OP_COLLECT; }
    switch (op.k) {
      case OP_COLLECT_TIED: break;
      case OP_STEP: hist += vf::sfmt(" step(cb%d)", op.arg); w.v[op.arg] += 1; break;
      case OP_DEC: hist += vf::sfmt(" decrease(cb%d)", op.arg); w.v[op.arg] -= 1; break;
      case OP_TOGGLE:
        if (op.arg == 0) { w.extra0 = !w.extra0; hist += w.extra0 ? " appear(cb0,{a=1})" : " disappear(cb0,{a=1})"; }
        else { w.on1 = !w.on1; hist += w.on1 ? " appear(cb1,{a=2})" : " disappear(cb1,{a=2})"; }
        break;
      case OP_REPEAT:
        w.rep[op.arg] = w.rep[op.arg] % 3 + 1;
        hist += vf::sfmt(" observe-x%d(cb%d)", w.rep[op.arg], op.arg);
        break;
      case OP_ADD:
        c.stage("AddCallback");
        hist += vf::sfmt(" Add(cb%d%s)", op.arg, !sec ? "" : op.arg == 3 ? " on o2" : " on o");
        (op.arg == 3 ? inst2 : inst)->AddCallback(fn[op.arg], st[op.arg]);
        registered[op.arg] = true;
        break;
      case OP_REMOVE:
        c.stage("RemoveCallback");
        hist += vf::sfmt(" Remove(cb%d%s)", op.arg, !sec ? "" : op.arg == 3 ? " on o2" : " on o");
        (op.arg == 3 ? inst2 : inst)->RemoveCallback(fn[op.arg], st[op.arg]);
        registered[op.arg] = false;
        break;
      case OP_DESTROY:
        c.stage("DestroyInstrument");
        if (op.arg == 1) {
          hist += " Destroy(o2)";
          inst2 = nostd::shared_ptr<api::ObservableInstrument>();
          alive2 = false;
          registered[3] = false;
          break;
        }
        hist += sec ? " Destroy(o)" : " Destroy";
        inst = nostd::shared_ptr<api::ObservableInstrument>();
        alive = false;
        for (int j = 0; j < NSLOT; ++j) registered[j] = false;
        break;
      case OP_COLLECT: {
        const int r = op.arg;
        const bool delta = RC.delta[r];
        c.stage("Collect");
        hist += vf::sfmt(" Collect(r%d)", r);
        int before[NSLOT2];
        for (int j = 0; j < NSLOT2; ++j) before[j] = w.calls[j];
        Got gs[2];
        Got &g = gs[0];
        std::string pmsg;
        std::string psig = pull(*readers[r], specs, sec ? 2 : 1, gs, &pmsg);
        std::string where = " [" + cfgs + ";" + hist + "]";
        // --- invocation counts (per instrument and callback) ---
        for (int j = 0; j < (sec ? NSLOT2 : NSLOT); ++j) {
          int k = w.calls[j] - before[j];
          const char *on = !sec ? "" : j == 3 ? " (registered on o2)" : " (registered on o)";
          if (registered[j]) {
            c.check(k >= 1, S("C17:registered-callback-not-invoked"), vf::sfmt("callback cb%d%s is registered but was not invoked by this collection", j, on) + where);
            c.check(k <= 1, S("C17:callback-invoked-more-than-once"), vf::sfmt("callback cb%d%s was invoked %d times by one collection", j, on, k) + where);
          } else {
            c.check(k == 0, S((j == 3 ? alive2 : alive) ? "C17:removed-callback-invoked" : "C17:callback-invoked-after-instrument-destroyed"),
                    vf::sfmt("callback cb%d%s is not registered but was invoked %d time(s)", j, on, k) + where);
          }
        }
        c.check(!w.wrong_type, S("C17:observer-result-type"), "a callback was handed an ObserverResult of the other value type" + where);
        for (int q = 0; q < R; ++q)
          c.check(!readers[q]->asked_wrong_, S("C17:temporality-asked-for-wrong-type"),
                  vf::sfmt("reader r%d was asked for its temporality with instrument type %d, which no instrument of this meter has", q, readers[q]->wrong_type_) + where);
        if (!psig.empty()) c.fail(S(psig), pmsg + where);
        // --- what was observed by this collection ---
        bool obs[NATTR] = {false, false, false, false};
        bool repeated[NATTR] = {false, false, false, false};  // observed more than once by one invocation: the last observation counts
        for (int j = 0; j < NSLOT; ++j)
          if (registered[j])
            for (int a = 0; a < NATTR; ++a)
              if (w.mask(j) & (1u << a)) { obs[a] = true; repeated[a] = w.rep[j] > 1; last_total[a] = w.value(a); ever[a] = true; }
        outlog += vf::sfmt("|r%d:", r);
        if (!g.present) outlog += "-";
        for (int a = 0; a < NATTR; ++a) {
          // expected value of a point for this attribute set, if there is one
          int64_t want = (is_gauge || !delta) ? last_total[a] : last_total[a] - given[r][a];
          // A point is demanded only for an attribute set observed by this very collection (and, for a
          // delta sum, only if the difference is not zero). For a set that was not observed now the
          // statement is silent about presence; a point that is present must still carry the latest
          // observation (or the not yet delivered difference).
          bool must = obs[a] && (is_gauge || !delta || want != 0);
          if (g.has[a]) outlog += vf::sfmt("%d=%lld,", a, (long long)g.val[a]);
          if (g.has[a]) {
            if (g.val[a] != want) {
              std::string sig = is_gauge ? "C17:gauge-not-latest-value" : delta ? "C17:delta-not-difference-from-last-given" : "C17:cumulative-not-reported-total";
              if (repeated[a]) sig += ":repeated-observation";
              c.fail(S(sig), vf::sfmt("reader r%d (%s), attributes %s%s: got %s, expected %s", r, delta ? "delta" : "cumulative", kAttrName[a],
                                   !obs[a] ? " (not observed by this collection)" : repeated[a] ? " (observed several times by one invocation, the last observation counts)" : "",
                                   show_units(is_double, g.val[a]).c_str(), show_units(is_double, want).c_str()) + where);
            }
            if (!is_gauge && delta) given[r][a] = last_total[a];
          } else if (must) {
            const char *sig = is_gauge ? "C17:gauge-point-missing" : delta ? "C17:delta-point-missing" : "C17:cumulative-point-missing";
            c.fail(S(sig), vf::sfmt("reader r%d (%s), attributes %s: no point although the callback reported %s in this collection (expected %s)", r, delta ? "delta" : "cumulative", kAttrName[a],
                                 show_units(is_double, last_total[a]).c_str(), show_units(is_double, want).c_str()) + where);
          }
        }
        if (sec) {
          // the second instrument (a gauge of the other value type): {} = what cb3 observed last
          const Got &g2 = gs[1];
          const bool obs2 = registered[3];
          if (obs2) { last_total2 = w.value2(); ever2 = true; }
          outlog += "/o2:";
          if (!g2.present) outlog += "-";
          for (int a = 1; a < NATTR; ++a)
            c.check(!g2.has[a], S("C17:second-instrument:foreign-attribute-set"), vf::sfmt("stream 'o2' carries a point for %s, which only callbacks of instrument 'o' report", kAttrName[a]) + where);
          if (g2.has[0]) {
            outlog += vf::sfmt("0=%lld,", (long long)g2.val[0]);
            c.check(ever2 && g2.val[0] == last_total2, S("C17:second-instrument:gauge-not-latest-value"),
                    vf::sfmt("reader r%d, stream 'o2': got %s, the latest observation of its callback is %s%s", r, show_units(!is_double, g2.val[0]).c_str(),
                             ever2 ? show_units(!is_double, last_total2).c_str() : "none", obs2 ? "" : " (not observed by this collection)") + where);
          } else {
            c.check(!obs2, S("C17:second-instrument:gauge-point-missing"),
                    vf::sfmt("reader r%d, stream 'o2': no point although its callback reported %s in this collection", r, show_units(!is_double, last_total2).c_str()) + where);
          }
        }
        break;
      }
    }
    cur = vf::H128();
    real_state(cur);
    c.state(cur);
  }
  c.outcome(cfgs + outlog);
  c.sample(cfgs + ":" + hist + " =>" + outlog);
}

// ------------------------------------------------------------------------------------------------
// Part 2: synchronous gauges (ABI v2 only)
// ------------------------------------------------------------------------------------------------
#if OPENTELEMETRY_ABI_VERSION_NO >= 2
const char *const kOverloadName[4] = {"Record(V)", "Record(V,A)", "Record(V,C)", "Record(V,A,C)"};
// The four Record overloads of LongGauge / DoubleGauge are separate hand-written bodies.
template <class G, class V>
void gauge_record(G &g, V v, int attr, bool with_ctx) {
  if (!with_ctx) {
    if (attr == 0) g->Record(v);
    else g->Record(v, {{"a", (int32_t)attr}});
  } else {
    opentelemetry::context::Context ctx{"k", (int64_t)7};
    if (attr == 0) g->Record(v, ctx);
    else g->Record(v, {{"a", (int32_t)attr}}, ctx);
  }
}

// The MeterProvider (and with it the MeterContext) is destroyed while the application still holds the
// Meter; gauges created from then on have no storage and every Record must be a no-op.
void run_syncgauge_orphan(vf::Ctx &c, int part) {
  const bool is_double = c.pick("type", 2) == 1;
  const int ov = c.pick("overload", 4);
  c.stage("setup");
  nostd::shared_ptr<api::Meter> meter;
  {
    sdkm::MeterProvider provider(std::unique_ptr<sdkm::ViewRegistry>(new sdkm::ViewRegistry()), opentelemetry::sdk::resource::Resource::GetEmpty());
    meter = provider.GetMeter("m");
  }
  nostd::unique_ptr<api::Gauge<int64_t>> gi;
  nostd::unique_ptr<api::Gauge<double>> gd;
  if (is_double) gd = meter->CreateDoubleGauge("g");
  else gi = meter->CreateInt64Gauge("g");
  c.step();
  // the stage names the overload: a crash is reported as C17:crash:<stage>
  c.stage(vf::sfmt("%s::%s:meter-outlived-provider", is_double ? "DoubleGauge" : "LongGauge", kOverloadName[ov]).c_str());
  if (is_double) gauge_record(gd, 0.25, (ov & 1) ? 1 : 0, (ov & 2) != 0);
  else gauge_record(gi, (int64_t)1, (ov & 1) ? 1 : 0, (ov & 2) != 0);
  c.stage("done");
  std::string s = vf::sfmt("part%d orphan %s::%s returned", part, is_double ? "DoubleGauge" : "LongGauge", kOverloadName[ov]);
  vf::H128 st;
  st.add(0xc172); st.add(is_double); st.add((uint64_t)ov);
  c.state(st);
  c.outcome(s);
  c.sample(s);
}

void run_syncgauge(vf::Ctx &c) {
  const int part = c.pick("part", (int)g_parts.size());
  const Part &P = g_parts[part];
  if (P.orphan) { run_syncgauge_orphan(c, part); return; }
  const int g_depth = P.depth;
  const bool is_double = c.pick("type", 2) == 1;
  if (P.ties) vf::clock_set_autostep_ns(-1000);  // the clock stands still unless the harness advances it
  int ties_used = 0;
  auto S = [&](const std::string &sig) { return P.ties ? "C17:clock-tie:" + sig.substr(4) : sig; };
  const std::vector<ReaderCfg> &g_readers = g_reader_sets[P.readers];
  const int rcfg = c.pick("readers", (int)g_readers.size());
  const ReaderCfg &RC = g_readers[rcfg];
  const int R = RC.n;
  c.stage("setup");
  sdkm::MeterProvider provider(std::unique_ptr<sdkm::ViewRegistry>(new sdkm::ViewRegistry()), opentelemetry::sdk::resource::Resource::GetEmpty());
  if (P.view) add_explicit_view(provider, sdkm::InstrumentType::kGauge, "g", true);
  std::vector<std::shared_ptr<PullReader>> readers;
  for (int r = 0; r < R; ++r) {
    readers.push_back(std::make_shared<PullReader>(RC.delta[r], sdkm::InstrumentType::kGauge, sdkm::InstrumentType::kGauge));
    provider.AddMetricReader(readers.back());
  }
  nostd::shared_ptr<api::Meter> meter = provider.GetMeter("m");
  sdkm::Meter *sdk_meter = static_cast<sdkm::Meter *>(meter.get());
  nostd::unique_ptr<api::Gauge<int64_t>> gi;
  nostd::unique_ptr<api::Gauge<double>> gd;
  if (is_double) gd = meter->CreateDoubleGauge("g");
  else gi = meter->CreateInt64Gauge("g");
  sdkm::SyncMetricStorage *storage = static_cast<sdkm::SyncMetricStorage *>(sdk_meter->storage_registry_.begin()->second.get());
  auto collectors = provider.context_->GetCollectors();
  const int NA = 3;  // {}, {a=1}, {a=2}
  static const int64_t kVals[3] = {1, 2, -1};
  bool ever[NATTR] = {false, false, false, false};
  int64_t last[NATTR] = {0, 0, 0, 0};
  bool fresh[3][NATTR] = {};  // recorded since this reader's previous collection
  std::string cfgs = vf::sfmt("%s%sGauge<%s> readers=", P.ties ? "clock-ties " : "", P.view ? "explicit-aggregation-view " : "", is_double ? "double" : "int64");
  for (int r = 0; r < R; ++r) cfgs += RC.delta[r] ? 'D' : 'C';
  std::string hist, outlog;
  auto real_state = [&](vf::H128 &h) {
    h.add(0xc171);
    h.add((uint64_t)part); h.add(is_double); h.add((uint64_t)rcfg);
    hash_map(h, true, is_double, storage->attributes_hashmap_.get());
    hash_temporal(h, true, is_double, storage->temporal_metric_storage_, collectors);
    h.add((uint64_t)vf::clock_virtual_ns());
  };
  vf::H128 cur;
  real_state(cur);
  for (int d = 0; d < g_depth; ++d) {
    const bool last_op = d == g_depth - 1;
    const int n_rec = last_op ? 0 : NA * 3;
    // tie part: every operation reads the clock; a second copy of the alphabet runs without clock progress
    const bool tie_ok = P.ties && ties_used < 2 && d > 0;
    if (n_rec + R > 1 || tie_ok) {
      vf::H128 h = cur;
      h.add((uint64_t)(g_depth - d));
      for (int a = 0; a < NATTR; ++a) { h.add(ever[a]); h.add((uint64_t)last[a]); }
      for (int r = 0; r < R; ++r) for (int a = 0; a < NATTR; ++a) h.add(fresh[r][a]);
      h.add((uint64_t)ties_used);
      c.prune_point(h);
    }
    int op = c.pick("op", (n_rec + R) * (tie_ok ? 2 : 1));
    c.step();
    if (op >= n_rec + R) { op -= n_rec + R; ties_used++; hist += " [no clock progress]"; }
    else if (P.ties) vf::clock_advance_ns(1000000);
    if (op < n_rec) {
      int a = op / 3;
      int64_t u = kVals[op % 3];
      const bool with_ctx = (d & 1) != 0;  // odd steps use the overloads that take an explicit Context (the step number is part of the pruning hash)
      c.stage("Record");
      hist += vf::sfmt(" Record(%s,%s%s)", show_units(is_double, u).c_str(), kAttrName[a], with_ctx ? ",ctx" : "");
      if (is_double) gauge_record(gd, (double)u / 4.0, a, with_ctx);
      else gauge_record(gi, u, a, with_ctx);
      ever[a] = true;
      last[a] = u;
      for (int r = 0; r < R; ++r) fresh[r][a] = true;
    } else {
      const int r = op - n_rec;
      c.stage("Collect");
      hist += vf::sfmt(" Collect(r%d)", r);
      Got g;
      std::string pmsg;
      std::string psig = pull(*readers[r], "g", true, is_double, &g, &pmsg);
      std::string where = " [" + cfgs + ";" + hist + "]";
      for (int q = 0; q < R; ++q)
        c.check(!readers[q]->asked_wrong_, S("C17:temporality-asked-for-wrong-type"),
                vf::sfmt("reader r%d was asked for its temporality with instrument type %d, the instrument is a synchronous gauge (%d)", q, readers[q]->wrong_type_, (int)sdkm::InstrumentType::kGauge) + where);
      if (!psig.empty()) c.fail(S(psig), pmsg + where);
      outlog += vf::sfmt("|r%d:", r);
      for (int a = 0; a < NATTR; ++a) {
        if (g.has[a]) outlog += vf::sfmt("%d=%lld,", a, (long long)g.val[a]);
        if (g.has[a]) {
          c.check(ever[a] && g.val[a] == last[a], S("C17:sync-gauge-not-latest-value"),
                  vf::sfmt("reader r%d, attributes %s: got %s, the most recently recorded value is %s", r, kAttrName[a], show_units(is_double, g.val[a]).c_str(),
                           ever[a] ? show_units(is_double, last[a]).c_str() : "none") + where);
        } else {
          // a value recorded since this reader's previous collection has to be reported; whether an
          // unchanged value is reported again is not stated
          c.check(!fresh[r][a], S("C17:sync-gauge-point-missing"), vf::sfmt("reader r%d, attributes %s: no point although %s was recorded since this reader's previous collection", r, kAttrName[a],
                                                                         show_units(is_double, last[a]).c_str()) + where);
        }
        fresh[r][a] = false;
      }
    }
    cur = vf::H128();
    real_state(cur);
    c.state(cur);
  }
  c.outcome(cfgs + outlog);
  c.sample(cfgs + ":" + hist + " =>" + outlog);
}
#endif

void setup(vf::Options &o) {
  o.split_depth = 5;
  o.deadline_s = o.thorough ? 900 : 150;
  o.table_bits = o.thorough ? 25 : 23;
  opentelemetry::sdk::common::internal_log::GlobalLogHandler::SetLogLevel(opentelemetry::sdk::common::internal_log::LogLevel::None);
  const bool D = true, C = false;
  for (int n = 1; n <= 3; ++n)
    for (int m = 0; m < (1 << n); ++m) {
      ReaderCfg rc{n, {false, false, false}};
      for (int i = 0; i < n; ++i) rc.delta[i] = !((m >> i) & 1);
      g_reader_sets[ALL14].push_back(rc);
    }
  g_reader_sets[REP8] = {{1, {D}}, {1, {C}}, {2, {D, D}}, {2, {D, C}}, {2, {C, C}}, {3, {D, D, C}}, {3, {D, C, C}}, {3, {C, D, D}}};
  g_reader_sets[REP6] = {{1, {D}}, {1, {C}}, {2, {D, D}}, {2, {D, C}}, {3, {D, D, C}}, {3, {D, C, C}}};
  g_reader_sets[TWO5] = {{1, {D}}, {1, {C}}, {2, {D, D}}, {2, {D, C}}, {2, {C, C}}};
  //                 depth rich  readers both   slim   ties   sec    orphan view   cyc
#if OPENTELEMETRY_ABI_VERSION_NO >= 2
  if (o.thorough)
    g_parts = {{5, false, ALL14, false, false, false, false, false}, {6, false, TWO5, false, false, false, false, false}, {5, false, REP6, false, false, true, false, false},
               {1, false, TWO5, false, false, false, false, true}, {5, false, TWO5, false, false, false, false, false, true}};
  else g_parts = {{4, false, REP6, false, false, false, false, false}, {4, false, TWO5, false, false, true, false, false}, {1, false, TWO5, false, false, false, false, true},
                  {3, false, TWO5, false, false, false, false, false, true}};
#else
  if (o.thorough)
    g_parts = {{5, true, ALL14, true, false, false, false, false}, {6, false, REP6, false, false, false, false, false}, {7, false, TWO5, false, true, false, false, false},
               {5, false, REP6, false, false, true, false, false}, {6, false, REP6, false, false, false, true, false}, {6, false, TWO5, false, false, false, false, false, true}};
  else g_parts = {{5, false, REP6, false, false, false, false, false}, {4, false, TWO5, false, false, true, false, false}, {4, false, TWO5, false, false, false, true, false},
                  {4, false, TWO5, false, false, false, false, false, true}, {6, false, TWO5, false, false, false, false, false, false, true}};
  if (o.thorough) g_parts.push_back({8, false, REP6, false, false, false, false, false, false, true});
#endif
  std::string d = o.get("depth");
  if (!d.empty())
    g_parts = {{atoi(d.c_str()), o.get("rich") == "1", (ReaderSet)atoi(o.get("readers", "1").c_str()), o.get("bothstarts") == "1", o.get("slim") == "1", o.get("ties") == "1",
                o.get("sec") == "1", o.get("orphan") == "1", o.get("view") == "1", o.get("cyc") == "1"}};
}

void run(vf::Ctx &c) {
  vf::clock_reset();
  vf::clock_set_autostep_ns(1000);
#if OPENTELEMETRY_ABI_VERSION_NO >= 2
  run_syncgauge(c);
#else
  run_observable(c);
#endif
}

}  // namespace

#if OPENTELEMETRY_ABI_VERSION_NO >= 2
VF_MAIN("c17_syncgauge", "C17", setup, run)
#else
VF_MAIN("c17_observables", "C17", setup, run)
#endif
