H("c18_env", "C18", "seq", ["harness/c18_env.cc"], sdk=["common"],
  what="real Get{Bool,Uint,Duration,Float,String}EnvironmentVariable and GetSdkDisabled over per-reader string generators (all letter cases, boundary and 25-digit numbers, "
       "every unit, signs, blanks, junk, single and restricted double point mutations) crossed with errno on entry in {0, ERANGE}, against a three-valued reference "
       "(documented syntax => exact value, libc leniency => exact value or default, anything else => default); signed overflow traps via UBSan",
  design_ref="5/C18")
H("c18_resource", "C18", "seq", ["harness/c18_resource.cc"], sdk=["common", "version", "resource"],
  what="real Resource::Merge over all pairs (thorough: triples) of attribute maps over {a,b,service.name} x {absent,string,other type} x schema URLs {'',u1,u2} against a map model; "
       "real OTELResourceDetector::Detect over a deviation-bounded generator of OTEL_RESOURCE_ATTRIBUTES x OTEL_SERVICE_NAME values against an independent key=value reader; "
       "real Resource::Create per environment assignment in a child forked inside the execution (the detector result is cached in a static) x user attributes x schema against defaults (+) env (+) user + service.name fallback",
  design_ref="5/C18")
H("c18_providers", "C18", "seq", ["harness/c18_providers.cc"], sdk=["common", "version", "resource", "trace", "logs", "metrics"],
  what="real TracerProvider / LoggerProvider / MeterProvider x construction path (constructor, factory, context; constructor / factory with the defaulted resource; two processors / readers; "
       "a processor / reader added after telemetry was emitted) x 4 resources x 1-2 scopes x 1-2 items with simple processors, "
       "harness exporters over the real SpanData / ReadWriteLogRecord and a harness MetricReader: every exported item references (pointer and value) its provider's resource; "
       "sdk Provider::Set*Provider installs the provider iff OTEL_SDK_DISABLED is not (case-insensitively) 'true', over 9 values of the variable",
  design_ref="5/C18")
