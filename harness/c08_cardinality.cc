// C08 (b): cardinality limits lose nothing (Engine B).
//   part 0: SyncMetricStorage constructed directly with limit L in {1,2,3,4}; every history of depth d over
//           Record(set i) (L+2 distinct attribute sets, up to symmetry of the set names) and Collect(collector j)
//           for collector configurations {delta}, {cumulative}, {delta,cumulative}; every record carries a
//           unique bit so that the reported series identify exactly which measurements they contain.
//   part 1: MeterProvider + counter with the default limit (2000): 1999 / 2001 distinct sets in one cycle,
//           2 x 1100 and 2 x 2001 over two cycles, two readers with two pending interval tables.
// Oracle after every Collect: number of series <= limit; every series is a recorded set or the
// otel.metrics.overflow=true series; a regular series holds only measurements of its own set; the total over
// all series equals everything recorded in scope (delta: since that collector's previous collection,
// cumulative: since start); no overflow series while fewer than `limit` distinct sets occurred.
#include <map>
#include <set>

#include <opentelemetry/common/key_value_iterable_view.h>
#include <opentelemetry/context/context.h>
#include <opentelemetry/metrics/meter.h>
#include <opentelemetry/metrics/sync_instruments.h>
#include <opentelemetry/sdk/common/global_log_handler.h>
#include <opentelemetry/sdk/metrics/data/metric_data.h>
#include <opentelemetry/sdk/metrics/data/point_data.h>
#include <opentelemetry/sdk/metrics/export/metric_producer.h>
#include <opentelemetry/sdk/metrics/meter_provider.h>
#include <opentelemetry/sdk/metrics/metric_reader.h>
#include <opentelemetry/sdk/metrics/state/attributes_hashmap.h>
#include <opentelemetry/sdk/metrics/state/metric_collector.h>
#include <opentelemetry/sdk/metrics/state/sync_metric_storage.h>
#include <opentelemetry/sdk/metrics/view/attributes_processor.h>

#include "seq/vf_seq.h"
#include "vf_clock.h"

namespace nostd = opentelemetry::nostd;
namespace sm = opentelemetry::sdk::metrics;
namespace sc = opentelemetry::sdk::common;
using opentelemetry::common::AttributeValue;

#define CHECK(ctx, cond, sig, msg) do { if (!(cond)) (ctx).fail((sig), (msg)); } while (0)

namespace {

int g_depth = 8;

constexpr int kOverflow = -1, kUnknown = -2;
// attribute sets are {"k": int32 id}; returns the id, kOverflow for the overflow set, kUnknown otherwise
int set_id(const sm::PointAttributes &a) {
  if (a.size() != 1) return kUnknown;
  auto &kv = *a.begin();
  if (kv.first == "k" && nostd::holds_alternative<int32_t>(kv.second)) return nostd::get<int32_t>(kv.second);
  if (kv.first == "otel.metrics.overflow" && nostd::holds_alternative<bool>(kv.second) && nostd::get<bool>(kv.second)) return kOverflow;
  return kUnknown;
}
struct Point { int id; int64_t value; };
void add_points(std::vector<Point> &out, const sm::MetricData &md) {
  for (auto &pa : md.point_data_attr_) {
    int64_t v = INT64_MIN;
    if (nostd::holds_alternative<sm::SumPointData>(pa.point_data)) {
      auto &sp = nostd::get<sm::SumPointData>(pa.point_data);
      if (nostd::holds_alternative<int64_t>(sp.value_)) v = nostd::get<int64_t>(sp.value_);
    }
    out.push_back({set_id(pa.attributes), v});
  }
}
std::string show_points(std::vector<Point> pts, bool bits) {
  std::sort(pts.begin(), pts.end(), [](const Point &a, const Point &b) { return a.id < b.id; });
  std::string s;
  size_t shown = 0;
  for (auto &p : pts) {
    if (++shown > 12) { s += vf::sfmt("... (%zu series)", pts.size()); break; }
    s += (p.id == kOverflow ? std::string("overflow") : p.id == kUnknown ? std::string("?") : vf::sfmt("s%d", p.id)) + (bits ? vf::sfmt("=0x%llx ", (unsigned long long)p.value) : vf::sfmt("=%lld ", (long long)p.value));
  }
  return s;
}

struct Rec { int set; int64_t value; };

// The oracle.  `scope` = the measurements this collection has to account for, `ever` = all sets recorded so far.
void check_collection(vf::Ctx &c, const std::vector<Point> &got, const std::vector<Rec> &scope, const std::set<int> &ever, size_t limit, bool cumulative,
                      bool first_interval, bool subset_by_bits, const std::string &hist) {
  const char *temp = cumulative ? "cumulative" : "delta";
  std::string tail = vf::sfmt("; limit %zu, %s collector; history: ", limit, temp) + hist + " => " + show_points(got, subset_by_bits);
  CHECK(c, got.size() <= limit, vf::sfmt("C08:limit:series-count:%s:%s-interval", temp, first_interval ? "first" : "later"),
        vf::sfmt("%zu series reported with cardinality limit %zu", got.size(), limit) + tail);
  std::map<int, int64_t> want;  // per set: total recorded in scope
  int64_t total = 0;
  for (auto &r : scope) { want[r.set] += r.value; total += r.value; }
  std::set<int> seen;
  int64_t sum = 0;
  bool has_overflow = false;
  for (auto &p : got) {
    CHECK(c, p.id != kUnknown && (p.id == kOverflow || ever.count(p.id)), "C08:series:unknown-attributes", "a series with attributes that were never recorded is reported" + tail);
    CHECK(c, seen.insert(p.id).second, "C08:series:duplicate", "two reported series carry the same attribute set" + tail);
    CHECK(c, p.value != INT64_MIN, "C08:series:point-type", "a counter series is not an int64 sum" + tail);
    sum += p.value;
    if (p.id == kOverflow) { has_overflow = true; continue; }
    int64_t w = want.count(p.id) ? want[p.id] : 0;
    bool own = subset_by_bits ? ((p.value & ~w) == 0) : (p.value >= 0 && p.value <= w);
    CHECK(c, own, "C08:series:foreign-measurements", vf::sfmt("series s%d holds measurements that were not recorded with its attribute set in this scope", p.id) + tail);
  }
  if (sum != total) {
    // distinguishing feature: every regular series is complete, so what is missing was folded into the overflow
    // series and lost there
    bool regular_complete = has_overflow;
    for (auto &p : got) if (p.id != kOverflow) regular_complete &= (want.count(p.id) && p.value == want[p.id]);
    c.fail(vf::sfmt(regular_complete ? "C08:overflow:overflow-series-lost-measurements:%s" : "C08:overflow:total-differs:%s", temp),
           (subset_by_bits ? vf::sfmt("the reported series add up to 0x%llx, recorded in scope: 0x%llx (bit i = i-th Record)", (unsigned long long)sum, (unsigned long long)total)
                           : vf::sfmt("the reported series add up to %lld, recorded in scope: %lld", (long long)sum, (long long)total)) + tail);
  }
  if (want.size() < limit) {
    CHECK(c, !has_overflow, vf::sfmt("C08:overflow:premature:%s", temp), vf::sfmt("an overflow series is reported although only %zu distinct sets occurred", want.size()) + tail);
    for (auto &w : want) CHECK(c, seen.count(w.first), vf::sfmt("C08:series:missing:%s", temp), vf::sfmt("set s%d has no series although the limit is not reached", w.first) + tail);
  }
}

class Handle : public sm::CollectorHandle {
 public:
  explicit Handle(bool cumulative) : cumulative_(cumulative) {}
  sm::AggregationTemporality GetAggregationTemporality(sm::InstrumentType) noexcept override { return cumulative_ ? sm::AggregationTemporality::kCumulative : sm::AggregationTemporality::kDelta; }
  bool cumulative_;
};
class PullReader : public sm::MetricReader {
 public:
  explicit PullReader(bool cumulative) : cumulative_(cumulative) {}
  sm::AggregationTemporality GetAggregationTemporality(sm::InstrumentType) const noexcept override { return cumulative_ ? sm::AggregationTemporality::kCumulative : sm::AggregationTemporality::kDelta; }
  bool cumulative_;
 private:
  bool OnForceFlush(std::chrono::microseconds) noexcept override { return true; }
  bool OnShutDown(std::chrono::microseconds) noexcept override { return true; }
};

using KVVec = std::vector<std::pair<nostd::string_view, AttributeValue>>;

// ---------------------------------------------------------------------------------------------
// part 0: SyncMetricStorage with an explicit small limit
// ---------------------------------------------------------------------------------------------
void run_small(vf::Ctx &c) {
  size_t L = 1 + (size_t)c.pick("limit", 4);
  static const std::vector<std::vector<int>> kCols = {{0}, {1}, {0, 1}};  // 0 = delta, 1 = cumulative
  const std::vector<int> &ct = kCols[c.pick("collectors", 3)];
  int nsets = (int)L + 2;

  c.stage("setup");
  sm::InstrumentDescriptor desc = {"n", "d", "u", sm::InstrumentType::kCounter, sm::InstrumentValueType::kLong};
  sm::DefaultAttributesProcessor proc;
  sm::SyncMetricStorage storage(desc, sm::AggregationType::kSum, &proc, nullptr, L);
  std::vector<std::shared_ptr<sm::CollectorHandle>> cols;
  for (int t : ct) cols.emplace_back(new Handle(t == 1));
  auto t0 = std::chrono::system_clock::now();

  std::vector<Rec> recs;
  std::set<int> ever;
  std::vector<size_t> last(ct.size(), 0);
  std::vector<int> ncollects(ct.size(), 0);
  int used = 0;
  std::string hist;
  auto do_collect = [&](size_t r) {
    c.stage("Collect");
    std::vector<Point> got;
    storage.Collect(cols[r].get(), cols, t0, std::chrono::system_clock::now(), [&](sm::MetricData md) { add_points(got, md); return true; });
    c.step();
    hist += vf::sfmt(" C%zu%s", r, ct[r] ? "c" : "d");
    bool cumulative = ct[r] == 1;
    std::vector<Rec> scope(recs.begin() + (cumulative ? 0 : last[r]), recs.end());
    // "first interval": no collection of any collector has swapped the interval table before the records in scope
    bool first = true;
    for (size_t k = 0; k < ct.size(); ++k) first &= (ncollects[k] == 0);
    last[r] = recs.size();
    check_collection(c, got, scope, ever, L, cumulative, first, true, hist);
    ncollects[r]++;
    c.trace("after Collect: interval table limit %zu size %zu", storage.attributes_hashmap_->attributes_limit_, storage.attributes_hashmap_->Size());
    c.state(vf::sfmt("L%zu|c%zu|%zu|", L, ct.size(), r) + show_points(got, true) + vf::sfmt("|t%zu", storage.attributes_hashmap_->Size()));
    return got.size();
  };
  for (int d = 0; d < g_depth; ++d) {
    int nrec = used < nsets ? used + 1 : used;  // symmetry: a new set is always the lowest unused id
    int op = c.pick("op", nrec + (int)ct.size());
    if (op < nrec) {
      c.stage("Record");
      int32_t id = op;
      if (op == used) ++used;
      KVVec kv = {{"k", AttributeValue(id)}};
      opentelemetry::common::KeyValueIterableView<KVVec> it(kv);
      int64_t bit = (int64_t)1 << recs.size();
      storage.RecordLong(bit, it, opentelemetry::context::Context{});
      recs.push_back({id, bit});
      ever.insert(id);
      hist += vf::sfmt(" R(s%d)", id);
      c.step();
    } else {
      do_collect((size_t)(op - nrec));
    }
  }
  // final collection by every collector
  std::string fin;
  for (size_t r = 0; r < ct.size(); ++r) fin += vf::sfmt("%zu/", do_collect(r));
  c.outcome(vf::sfmt("L%zu|c%zu|%d|", L, ct.size(), used) + fin);
  static int ns = 0;
  if (ns < 2) { ++ns; c.sample(vf::sfmt("limit %zu:", L) + hist); }
}

// ---------------------------------------------------------------------------------------------
// part 1: MeterProvider, default limit
// ---------------------------------------------------------------------------------------------
struct BigCfg { const char *name; std::vector<int> readers; std::vector<std::pair<int, int>> cycles; /* [from,to) set ids per cycle */ bool late_second_reader; };
void run_big(vf::Ctx &c) {
  const int LIM = (int)sm::kAggregationCardinalityLimit;
  static const std::vector<BigCfg> cfgs = {
      {"1999 sets, one cycle", {0}, {{0, LIM - 1}}, false},
      {"1999 sets, one cycle", {1}, {{0, LIM - 1}}, false},
      {"2001 sets, one cycle", {0}, {{0, LIM + 1}}, false},
      {"2001 sets, one cycle", {1}, {{0, LIM + 1}}, false},
      {"2 x 1100 disjoint sets, two cycles", {0}, {{0, 1100}, {1100, 2200}}, false},
      {"2 x 1100 disjoint sets, two cycles", {1}, {{0, 1100}, {1100, 2200}}, false},
      {"2 x 2001 (the same sets), two cycles", {1}, {{0, LIM + 1}, {0, LIM + 1}}, false},
      {"1100 + 1100 + 1100 disjoint sets, three cycles", {1}, {{0, 1100}, {1100, 2200}, {2200, 3300}}, false},
      {"2 x 1100 disjoint sets, two readers, the second collects only at the end", {0, 0}, {{0, 1100}, {1100, 2200}}, true},
      {"2 x 1100 disjoint sets, two readers, the second collects only at the end", {0, 1}, {{0, 1100}, {1100, 2200}}, true},
  };
  const BigCfg &cfg = cfgs[c.pick("config", (int)cfgs.size())];
  c.stage("setup");
  sm::MeterProvider mp;
  std::vector<std::shared_ptr<PullReader>> readers;
  for (int t : cfg.readers) { readers.emplace_back(new PullReader(t == 1)); mp.AddMetricReader(readers.back()); }
  auto meter = mp.GetMeter("m", "1", "s");
  auto counter = meter->CreateUInt64Counter("n", "d", "u");
  std::vector<Rec> recs;
  std::set<int> ever;
  std::vector<size_t> last(readers.size(), 0);
  std::string hist = cfg.name, fin;
  int ncollects = 0;
  for (size_t k = 0; k < cfg.cycles.size(); ++k) {
    c.stage("Record");
    for (int id = cfg.cycles[k].first; id < cfg.cycles[k].second; ++id) {
      KVVec kv = {{"k", AttributeValue((int32_t)id)}};
      opentelemetry::common::KeyValueIterableView<KVVec> it(kv);
      counter->Add(1, it, opentelemetry::context::Context{});
      recs.push_back({id, 1});
      ever.insert(id);
      c.step();
    }
    hist += vf::sfmt(" | cycle %zu: sets %d..%d", k, cfg.cycles[k].first, cfg.cycles[k].second - 1);
    for (size_t r = 0; r < readers.size(); ++r) {
      if (cfg.late_second_reader && r == 1 && k + 1 < cfg.cycles.size()) continue;
      c.stage("Collect");
      std::vector<Point> got;
      readers[r]->Collect([&](sm::ResourceMetrics &rm) {
        for (auto &smd : rm.scope_metric_data_) for (auto &md : smd.metric_data_) add_points(got, md);
        return true;
      });
      c.step();
      bool cumulative = readers[r]->cumulative_;
      hist += vf::sfmt(" C%zu%s", r, cumulative ? "c" : "d");
      std::vector<Rec> scope(recs.begin() + (cumulative ? 0 : last[r]), recs.end());
      last[r] = recs.size();
      check_collection(c, got, scope, ever, (size_t)LIM, cumulative, ncollects == 0, false, hist);
      ++ncollects;
      int64_t ov = 0;
      for (auto &p : got) if (p.id == kOverflow) ov = p.value;
      std::string st = vf::sfmt("%s|%zu|%zu|n%zu|ov%lld", cfg.name, k, r, got.size(), (long long)ov);
      c.state(st);
      fin += vf::sfmt("%zu(ov%lld)/", got.size(), (long long)ov);
    }
  }
  c.outcome(std::string(cfg.name) + vf::sfmt("|%zu|", cfg.readers.size()) + fin);
  c.sample(hist + " => series(overflow) per collection: " + fin);
}

void run(vf::Ctx &c) {
  vf::clock_reset();
  vf::clock_set_autostep_ns(1000);
  static bool quiet = (sc::internal_log::GlobalLogHandler::SetLogLevel(sc::internal_log::LogLevel::None), true);
  (void)quiet;
  if (c.pick("part", 2) == 0) run_small(c);
  else run_big(c);
}

void setup(vf::Options &o) {
  o.split_depth = 4;
  o.deadline_s = o.thorough ? 1200 : 150;
  o.table_bits = 24;
  g_depth = atoi(o.get("depth", o.thorough ? "9" : "8").c_str());
}

}  // namespace

VF_MAIN("c08_cardinality", "C08", setup, run)
