// C08 (b): cardinality limits lose nothing (Engine B).
//   part 0: SyncMetricStorage constructed directly with limit L in {1,2,3,4}; every history of depth d over
//           Record(set i) (L+2 distinct attribute sets, up to symmetry of the set names) and Collect(collector j)
//           for collector configurations {delta}, {cumulative}, {delta,cumulative}; every record carries a
//           unique bit so that the reported series identify exactly which measurements they contain.
//           Second alphabet (depth d-1): additionally Record WITHOUT attributes (RecordLong(value, ctx), the
//           GetOrSetDefault(const MetricAttributes&) path; the empty set is one more distinct set).  With the
//           single delta collector additionally a FilteringAttributesProcessor{k} configuration whose records
//           carry {k=i, noise=<unique>}: sets that collapse after the filter count once.
//   part 1: MeterProvider + counter with the default limit (2000): 1999 / 2001 distinct sets in one cycle,
//           2 x 1100 and 2 x 2001 over two cycles, two readers with two pending interval tables.
//   part 2: AttributesHashMap(L) directly, L in {1,2,3}: every sequence of depth d over (attribute set, one of
//           the three GetOrSetDefault and three Set overloads); after every call the table is compared with the
//           table before the call: only the entry the call addresses may change.
// Oracle after every Collect: number of series <= limit; every series is a recorded set or the
// otel.metrics.overflow=true series; a regular series holds only measurements of its own set - and ALL of them
// when the measurements in scope were recorded into one interval table; the total over all series equals
// everything recorded in scope (delta: since that collector's previous collection, cumulative: since start);
// no overflow series while fewer than `limit` distinct sets occurred.
#include <map>
#include <set>

#include <opentelemetry/common/key_value_iterable_view.h>
#include <opentelemetry/context/context.h>
#include <opentelemetry/metrics/meter.h>
#include <opentelemetry/metrics/sync_instruments.h>
#include <opentelemetry/sdk/common/global_log_handler.h>
#include <opentelemetry/sdk/metrics/data/metric_data.h>
#include <opentelemetry/sdk/metrics/data/point_data.h>
#include <opentelemetry/sdk/metrics/export/metric_producer.h>
#include <opentelemetry/sdk/metrics/meter_provider.h>
#include <opentelemetry/sdk/metrics/metric_reader.h>
#include <opentelemetry/sdk/metrics/state/attributes_hashmap.h>
#include <opentelemetry/sdk/metrics/state/metric_collector.h>
#include <opentelemetry/sdk/metrics/state/sync_metric_storage.h>
#include <opentelemetry/sdk/metrics/view/attributes_processor.h>

#include "seq/vf_seq.h"
#include "vf_clock.h"

namespace nostd = opentelemetry::nostd;
namespace sm = opentelemetry::sdk::metrics;
namespace sc = opentelemetry::sdk::common;
using opentelemetry::common::AttributeValue;

#define CHECK(ctx, cond, sig, msg) do { if (!(cond)) (ctx).fail((sig), (msg)); } while (0)

namespace {

int g_depth = 8, g_edepth = 7, g_tdepth = 4;

constexpr int kOverflow = -1, kUnknown = -2, kEmpty = -3;
// attribute sets are {"k": int32 id} or {}; returns the id, kEmpty for the empty set, kOverflow for the overflow
// set, kUnknown otherwise
int set_id(const sm::PointAttributes &a) {
  if (a.size() == 0) return kEmpty;
  if (a.size() != 1) return kUnknown;
  auto &kv = *a.begin();
  if (kv.first == "k" && nostd::holds_alternative<int32_t>(kv.second)) return nostd::get<int32_t>(kv.second);
  if (kv.first == "otel.metrics.overflow" && nostd::holds_alternative<bool>(kv.second) && nostd::get<bool>(kv.second)) return kOverflow;
  return kUnknown;
}
struct Point { int id; int64_t value; };
void add_points(std::vector<Point> &out, const sm::MetricData &md) {
  for (auto &pa : md.point_data_attr_) {
    int64_t v = INT64_MIN;
    if (nostd::holds_alternative<sm::SumPointData>(pa.point_data)) {
      auto &sp = nostd::get<sm::SumPointData>(pa.point_data);
      if (nostd::holds_alternative<int64_t>(sp.value_)) v = nostd::get<int64_t>(sp.value_);
    }
    out.push_back({set_id(pa.attributes), v});
  }
}
std::string show_points(std::vector<Point> pts, bool bits) {
  std::sort(pts.begin(), pts.end(), [](const Point &a, const Point &b) { return a.id < b.id; });
  std::string s;
  size_t shown = 0;
  for (auto &p : pts) {
    if (++shown > 12) { s += vf::sfmt("... (%zu series)", pts.size()); break; }
    s += (p.id == kOverflow ? std::string("overflow") : p.id == kUnknown ? std::string("?") : p.id == kEmpty ? std::string("{}") : vf::sfmt("s%d", p.id)) + (bits ? vf::sfmt("=0x%llx ", (unsigned long long)p.value) : vf::sfmt("=%lld ", (long long)p.value));
  }
  return s;
}

struct Rec { int set; int64_t value; int epoch = 0; };  // epoch: number of collections (by any collector) before the record
std::string set_name(int id) { return id == kEmpty ? std::string("{}") : id == kOverflow ? std::string("overflow") : vf::sfmt("s%d", id); }

// The oracle.  `scope` = the measurements this collection has to account for, `ever` = all sets recorded so far.
void check_collection(vf::Ctx &c, const std::vector<Point> &got, const std::vector<Rec> &scope, const std::set<int> &ever, size_t limit, bool cumulative,
                      bool first_interval, bool subset_by_bits, const std::string &hist) {
  // all measurements in scope went into the same interval table (no collection by any collector in between)
  bool single_table = true;
  for (auto &r : scope) single_table &= (r.epoch == scope.front().epoch);
  const char *temp = cumulative ? "cumulative" : "delta";
  std::string tail = vf::sfmt("; limit %zu, %s collector; history: ", limit, temp) + hist + " => " + show_points(got, subset_by_bits);
  CHECK(c, got.size() <= limit, vf::sfmt("C08:limit:series-count:%s:%s-interval", temp, first_interval ? "first" : "later"),
        vf::sfmt("%zu series reported with cardinality limit %zu", got.size(), limit) + tail);
  std::map<int, int64_t> want;  // per set: total recorded in scope
  int64_t total = 0;
  for (auto &r : scope) { want[r.set] += r.value; total += r.value; }
  std::set<int> seen;
  int64_t sum = 0;
  bool has_overflow = false;
  // first what the series are, then what they hold
  for (auto &p : got) {
    CHECK(c, p.id != kUnknown && (p.id == kOverflow || ever.count(p.id)), "C08:series:unknown-attributes", "a series with attributes that were never recorded is reported" + tail);
    CHECK(c, seen.insert(p.id).second, "C08:series:duplicate", "two reported series carry the same attribute set" + tail);
    CHECK(c, p.value != INT64_MIN, "C08:series:point-type", "a counter series is not an int64 sum" + tail);
  }
  for (auto &p : got) {
    sum += p.value;
    if (p.id == kOverflow) { has_overflow = true; continue; }
    int64_t w = want.count(p.id) ? want[p.id] : 0;
    bool own = subset_by_bits ? ((p.value & ~w) == 0) : (p.value >= 0 && p.value <= w);
    CHECK(c, own, "C08:series:foreign-measurements", "series " + set_name(p.id) + " holds measurements that were not recorded with its attribute set in this scope" + tail);
    // exact partition: when everything in scope was recorded into ONE interval table, a set that has its own
    // series has all its measurements there - only the excess sets are folded into the overflow series
    if (single_table)
      CHECK(c, p.value == w, vf::sfmt("C08:overflow:measurements-of-a-set-with-own-series-diverted:%s", temp),
            "series " + set_name(p.id) + (subset_by_bits ? vf::sfmt(" reports 0x%llx but 0x%llx was recorded with its attribute set", (unsigned long long)p.value, (unsigned long long)w)
                                                           : vf::sfmt(" reports %lld but %lld was recorded with its attribute set", (long long)p.value, (long long)w)) +
                " in this one interval (the rest sits in the overflow series although the set has a series of its own)" + tail);
  }
  if (sum != total) {
    // distinguishing feature: every regular series is complete, so what is missing was folded into the overflow
    // series and lost there
    bool regular_complete = has_overflow;
    for (auto &p : got) if (p.id != kOverflow) regular_complete &= (want.count(p.id) && p.value == want[p.id]);
    c.fail(vf::sfmt(regular_complete ? "C08:overflow:overflow-series-lost-measurements:%s" : "C08:overflow:total-differs:%s", temp),
           (subset_by_bits ? vf::sfmt("the reported series add up to 0x%llx, recorded in scope: 0x%llx (bit i = i-th Record)", (unsigned long long)sum, (unsigned long long)total)
                           : vf::sfmt("the reported series add up to %lld, recorded in scope: %lld", (long long)sum, (long long)total)) + tail);
  }
  if (want.size() < limit) {
    CHECK(c, !has_overflow, vf::sfmt("C08:overflow:premature:%s", temp), vf::sfmt("an overflow series is reported although only %zu distinct sets occurred", want.size()) + tail);
    for (auto &w : want) CHECK(c, seen.count(w.first), vf::sfmt("C08:series:missing:%s", temp), "set " + set_name(w.first) + " has no series although the limit is not reached" + tail);
  }
}

class Handle : public sm::CollectorHandle {
 public:
  explicit Handle(bool cumulative) : cumulative_(cumulative) {}
  sm::AggregationTemporality GetAggregationTemporality(sm::InstrumentType) noexcept override { return cumulative_ ? sm::AggregationTemporality::kCumulative : sm::AggregationTemporality::kDelta; }
  bool cumulative_;
};
class PullReader : public sm::MetricReader {
 public:
  explicit PullReader(bool cumulative) : cumulative_(cumulative) {}
  sm::AggregationTemporality GetAggregationTemporality(sm::InstrumentType) const noexcept override { return cumulative_ ? sm::AggregationTemporality::kCumulative : sm::AggregationTemporality::kDelta; }
  bool cumulative_;
 private:
  bool OnForceFlush(std::chrono::microseconds) noexcept override { return true; }
  bool OnShutDown(std::chrono::microseconds) noexcept override { return true; }
};

using KVVec = std::vector<std::pair<nostd::string_view, AttributeValue>>;

// ---------------------------------------------------------------------------------------------
// part 0: SyncMetricStorage with an explicit small limit
// ---------------------------------------------------------------------------------------------
void run_small(vf::Ctx &c) {
  size_t L = 1 + (size_t)c.pick("limit", 4);
  static const std::vector<std::vector<int>> kCols = {{0}, {1}, {0, 1}};  // 0 = delta, 1 = cumulative
  const std::vector<int> &ct = kCols[c.pick("collectors", 3)];
  // alphabet 0: Record(set i) with attributes only, depth g_depth; alphabet 1: additionally Record without
  // attributes (the empty set, through the attribute-less overload), depth g_edepth
  bool with_empty = c.pick("alphabet", 2) == 1;
  int depth = with_empty ? g_edepth : g_depth;
  // the filter only matters where measurements enter the interval table: single delta collector only
  bool filtered = (ct.size() == 1 && ct[0] == 0) ? c.pick("processor", 2) == 1 : false;
  int nsets = (int)L + 2;
  c.counted(filtered ? (with_empty ? "hist_filter_attrless" : "hist_filter") : (with_empty ? "hist_attrless" : "hist_sets_only"));

  c.stage("setup");
  sm::InstrumentDescriptor desc = {"n", "d", "u", sm::InstrumentType::kCounter, sm::InstrumentValueType::kLong};
  sm::DefaultAttributesProcessor dflt;
  sm::FilteringAttributesProcessor only_k(std::unordered_map<std::string, bool>{{"k", true}});
  const sm::AttributesProcessor *proc = filtered ? static_cast<const sm::AttributesProcessor *>(&only_k) : &dflt;
  sm::SyncMetricStorage storage(desc, sm::AggregationType::kSum, proc, nullptr, L);
  std::vector<std::shared_ptr<sm::CollectorHandle>> cols;
  for (int t : ct) cols.emplace_back(new Handle(t == 1));
  auto t0 = std::chrono::system_clock::now();

  std::vector<Rec> recs;
  std::set<int> ever;
  std::vector<size_t> last(ct.size(), 0);
  int total_collects = 0;
  int used = 0;
  std::string hist = filtered ? "allow{k}:" : "";
  auto do_collect = [&](size_t r) {
    c.stage("Collect");
    std::vector<Point> got;
    storage.Collect(cols[r].get(), cols, t0, std::chrono::system_clock::now(), [&](sm::MetricData md) { add_points(got, md); return true; });
    c.step();
    hist += vf::sfmt(" C%zu%s", r, ct[r] ? "c" : "d");
    bool cumulative = ct[r] == 1;
    std::vector<Rec> scope(recs.begin() + (cumulative ? 0 : last[r]), recs.end());
    // "first interval": no collection of any collector has swapped the interval table before the records in scope
    bool first = total_collects == 0;
    last[r] = recs.size();
    check_collection(c, got, scope, ever, L, cumulative, first, true, hist);
    total_collects++;
    c.trace("after Collect: interval table limit %zu size %zu", storage.attributes_hashmap_->attributes_limit_, storage.attributes_hashmap_->Size());
    c.state(vf::sfmt("L%zu|c%zu|%zu|", L, ct.size(), r) + show_points(got, true) + vf::sfmt("|t%zu", storage.attributes_hashmap_->Size()));
    return got.size();
  };
  for (int d = 0; d < depth; ++d) {
    int nrec = used < nsets ? used + 1 : used;  // symmetry: a new set is always the lowest unused id
    int nattrless = with_empty ? 1 : 0;
    int op = c.pick("op", nrec + nattrless + (int)ct.size());
    int64_t bit = (int64_t)1 << recs.size();
    if (op < nrec) {
      c.stage("Record");
      int32_t id = op;
      if (op == used) ++used;
      // with the filter every record carries an additional attribute with a unique value that the view drops
      KVVec kv = {{"k", AttributeValue(id)}};
      if (filtered) kv.insert(kv.begin() + (recs.size() % 2), KVVec::value_type{"noise", AttributeValue((int32_t)recs.size())});
      opentelemetry::common::KeyValueIterableView<KVVec> it(kv);
      storage.RecordLong(bit, it, opentelemetry::context::Context{});
      recs.push_back({id, bit, total_collects});
      ever.insert(id);
      hist += vf::sfmt(" R(s%d)", id);
      c.step();
    } else if (op < nrec + nattrless) {
      c.stage("Record(no attributes)");
      // with the filter every other such record takes the attribute overload with a set that is filtered to {}
      if (filtered && recs.size() % 2 == 1) {
        KVVec kv = {{"noise", AttributeValue((int32_t)recs.size())}};
        opentelemetry::common::KeyValueIterableView<KVVec> it(kv);
        storage.RecordLong(bit, it, opentelemetry::context::Context{});
        hist += " R({noise})";
      } else {
        storage.RecordLong(bit, opentelemetry::context::Context{});
        hist += " R()";
      }
      recs.push_back({kEmpty, bit, total_collects});
      ever.insert(kEmpty);
      c.step();
    } else {
      do_collect((size_t)(op - nrec - nattrless));
    }
  }
  // final collection by every collector
  std::string fin;
  for (size_t r = 0; r < ct.size(); ++r) fin += vf::sfmt("%zu/", do_collect(r));
  c.outcome(vf::sfmt("L%zu|c%zu|%d%d|%d|", L, ct.size(), (int)with_empty, (int)filtered, used) + fin);
  static int ns = 0;
  if (ns < 2) { ++ns; c.sample(vf::sfmt("limit %zu:", L) + hist); }
}

// ---------------------------------------------------------------------------------------------
// part 1: MeterProvider, default limit
// ---------------------------------------------------------------------------------------------
struct BigCfg { const char *name; std::vector<int> readers; std::vector<std::pair<int, int>> cycles; /* [from,to) set ids per cycle */ bool late_second_reader; };
void run_big(vf::Ctx &c) {
  const int LIM = (int)sm::kAggregationCardinalityLimit;
  static const std::vector<BigCfg> cfgs = {
      {"1999 sets, one cycle", {0}, {{0, LIM - 1}}, false},
      {"1999 sets, one cycle", {1}, {{0, LIM - 1}}, false},
      {"2001 sets, one cycle", {0}, {{0, LIM + 1}}, false},
      {"2001 sets, one cycle", {1}, {{0, LIM + 1}}, false},
      {"2 x 1100 disjoint sets, two cycles", {0}, {{0, 1100}, {1100, 2200}}, false},
      {"2 x 1100 disjoint sets, two cycles", {1}, {{0, 1100}, {1100, 2200}}, false},
      {"2 x 2001 (the same sets), two cycles", {1}, {{0, LIM + 1}, {0, LIM + 1}}, false},
      {"1100 + 1100 + 1100 disjoint sets, three cycles", {1}, {{0, 1100}, {1100, 2200}, {2200, 3300}}, false},
      {"2 x 1100 disjoint sets, two readers, the second collects only at the end", {0, 0}, {{0, 1100}, {1100, 2200}}, true},
      {"2 x 1100 disjoint sets, two readers, the second collects only at the end", {0, 1}, {{0, 1100}, {1100, 2200}}, true},
  };
  const BigCfg &cfg = cfgs[c.pick("config", (int)cfgs.size())];
  c.stage("setup");
  sm::MeterProvider mp;
  std::vector<std::shared_ptr<PullReader>> readers;
  for (int t : cfg.readers) { readers.emplace_back(new PullReader(t == 1)); mp.AddMetricReader(readers.back()); }
  auto meter = mp.GetMeter("m", "1", "s");
  auto counter = meter->CreateUInt64Counter("n", "d", "u");
  std::vector<Rec> recs;
  std::set<int> ever;
  std::vector<size_t> last(readers.size(), 0);
  std::string hist = cfg.name, fin;
  int ncollects = 0;
  for (size_t k = 0; k < cfg.cycles.size(); ++k) {
    c.stage("Record");
    for (int id = cfg.cycles[k].first; id < cfg.cycles[k].second; ++id) {
      KVVec kv = {{"k", AttributeValue((int32_t)id)}};
      opentelemetry::common::KeyValueIterableView<KVVec> it(kv);
      counter->Add(1, it, opentelemetry::context::Context{});
      recs.push_back({id, 1, ncollects});
      ever.insert(id);
      c.step();
    }
    hist += vf::sfmt(" | cycle %zu: sets %d..%d", k, cfg.cycles[k].first, cfg.cycles[k].second - 1);
    for (size_t r = 0; r < readers.size(); ++r) {
      if (cfg.late_second_reader && r == 1 && k + 1 < cfg.cycles.size()) continue;
      c.stage("Collect");
      std::vector<Point> got;
      readers[r]->Collect([&](sm::ResourceMetrics &rm) {
        for (auto &smd : rm.scope_metric_data_) for (auto &md : smd.metric_data_) add_points(got, md);
        return true;
      });
      c.step();
      bool cumulative = readers[r]->cumulative_;
      hist += vf::sfmt(" C%zu%s", r, cumulative ? "c" : "d");
      std::vector<Rec> scope(recs.begin() + (cumulative ? 0 : last[r]), recs.end());
      last[r] = recs.size();
      check_collection(c, got, scope, ever, (size_t)LIM, cumulative, ncollects == 0, false, hist);
      ++ncollects;
      int64_t ov = 0;
      for (auto &p : got) if (p.id == kOverflow) ov = p.value;
      std::string st = vf::sfmt("%s|%zu|%zu|n%zu|ov%lld", cfg.name, k, r, got.size(), (long long)ov);
      c.state(st);
      fin += vf::sfmt("%zu(ov%lld)/", got.size(), (long long)ov);
    }
  }
  c.outcome(std::string(cfg.name) + vf::sfmt("|%zu|", cfg.readers.size()) + fin);
  c.sample(hist + " => series(overflow) per collection: " + fin);
}

// ---------------------------------------------------------------------------------------------
// part 2: the series table directly, every overload that can add or replace an entry
// ---------------------------------------------------------------------------------------------
const char *kOverload[6] = {"GetOrSetDefault(KeyValueIterable,processor,cb)", "GetOrSetDefault(const MetricAttributes&,cb)", "GetOrSetDefault(MetricAttributes&&,cb)",
                            "Set(KeyValueIterable,processor,agg)", "Set(const MetricAttributes&,agg)", "Set(MetricAttributes&&,agg)"};
const char *kOverloadTag[6] = {"getorset-iterable", "getorset-const-ref", "getorset-rvalue", "set-iterable", "set-const-ref", "set-rvalue"};
using TableImage = std::map<int, const sm::Aggregation *>;  // set id -> the aggregation object stored for it
std::string show_image(const TableImage &m, const std::map<const sm::Aggregation *, int> &names) {
  std::string s = "{";
  for (auto &kv : m) {
    auto n = names.find(kv.second);
    s += set_name(kv.first) + (n == names.end() ? std::string("->?") : vf::sfmt("->a%d", n->second)) + " ";
  }
  return s + "}";
}

void run_table(vf::Ctx &c) {
  size_t L = 1 + (size_t)c.pick("limit", 3);
  int nnamed = (int)L + 1;  // named sets {k=i}; with the empty set L+2 distinct sets
  c.counted("table_sequences");
  c.stage("table(setup)");
  sm::AttributesHashMap table(L);
  sm::DefaultAttributesProcessor proc;
  std::map<const sm::Aggregation *, int> names;              // creation order of the aggregation objects (for messages)
  const sm::Aggregation *last_created = nullptr;
  int created = 0;
  auto mkagg = [&]() {
    std::unique_ptr<sm::Aggregation> a(new sm::LongSumAggregation(true));
    last_created = a.get();
    names[a.get()] = created++;
    return a;
  };
  TableImage M;         // the table before the call
  std::set<int> ever;   // distinct sets offered so far
  int used = 0;
  std::string hist = vf::sfmt("AttributesHashMap(%zu):", L);
  for (int d = 0; d < g_tdepth; ++d) {
    int nset = used < nnamed ? used + 1 : used;  // symmetry: a new named set is always the lowest unused id
    int si = c.pick("set", nset + 1);            // the last alternative is the empty set
    int ov = c.pick("overload", 6);
    int id = si < nset ? si : kEmpty;
    if (si == used && si < nset) ++used;
    ever.insert(id);
    KVVec kv;
    if (id != kEmpty) kv.push_back({"k", AttributeValue((int32_t)id)});
    opentelemetry::common::KeyValueIterableView<KVVec> it(kv);
    sm::MetricAttributes key(it), arg(it);
    hist += " " + std::string(kOverloadTag[ov]) + "(" + set_name(id) + ")";
    std::string tag = kOverloadTag[ov];
    c.stage(kOverload[ov]);
    const sm::Aggregation *ret = nullptr;   // GetOrSetDefault: what it returned; Set: the aggregation handed in
    last_created = nullptr;
    bool is_set = ov >= 3;
    switch (ov) {
      case 0: ret = table.GetOrSetDefault(it, &proc, mkagg); break;
      case 1: ret = table.GetOrSetDefault(arg, mkagg); break;
      case 2: ret = table.GetOrSetDefault(std::move(arg), mkagg); break;
      case 3: { auto a = mkagg(); ret = a.get(); table.Set(it, &proc, std::move(a)); break; }
      case 4: { auto a = mkagg(); ret = a.get(); table.Set(arg, std::move(a)); break; }
      default: { auto a = mkagg(); ret = a.get(); table.Set(std::move(arg), std::move(a)); break; }
    }
    c.step();
    // the table after the call
    c.stage("table(observe)");
    TableImage P;
    bool dup = false, unknown = false;
    size_t entries = 0;
    table.GetAllEnteries([&](const sm::MetricAttributes &a, sm::Aggregation &g) {
      int k = set_id(a);
      ++entries;
      unknown |= (k == kUnknown || (k != kOverflow && !ever.count(k)));
      dup |= !P.emplace(k, &g).second;
      return true;
    });
    auto tail_fn = [&] { return "; " + hist + ": table before " + show_image(M, names) + ", after " + show_image(P, names); };
#define tail tail_fn()
    CHECK(c, entries == table.Size(), "C08:table:size-differs-from-entries", vf::sfmt("Size() = %zu, %zu entries enumerated", table.Size(), entries) + tail);
    CHECK(c, !unknown, "C08:table:unknown-attributes:" + tag, "the table holds an attribute set that was never offered" + tail);
    CHECK(c, !dup, "C08:table:duplicate-entry:" + tag, "two entries carry the same attribute set" + tail);
    CHECK(c, entries <= L, "C08:table:size-exceeds-limit:" + tag, vf::sfmt("%zu entries with cardinality limit %zu", entries, L) + tail);
    CHECK(c, ret != nullptr, "C08:table:null-series:" + tag, "no aggregation returned" + tail);
    // which entry did the call address?
    int addressed;
    if (M.count(id)) {
      // the set has an entry: that one, never the overflow entry
      addressed = id;
      if (!is_set) CHECK(c, ret == M[id], "C08:table:existing-series-not-returned:" + tag, "the set " + set_name(id) + " has a series but a different one is returned" + tail);
    } else if (P.count(id) && P[id] == ret) {
      addressed = id;   // inserted under its own attributes
      if (!is_set) CHECK(c, ret == last_created, "C08:table:new-series-not-fresh:" + tag, "a new entry shares its aggregation with another one" + tail);
    } else {
      addressed = kOverflow;  // folded
      CHECK(c, !P.count(id), "C08:table:wrong-series-returned:" + tag, "the set " + set_name(id) + " was inserted but another series is returned" + tail);
      CHECK(c, P.count(kOverflow) && P[kOverflow] == ret, "C08:table:measurement-without-series:" + tag,
            "the aggregation for " + set_name(id) + " is neither stored under its own attributes nor under otel.metrics.overflow" + tail);
      if (!is_set) CHECK(c, M.count(kOverflow) ? ret == M[kOverflow] : ret == last_created, "C08:table:overflow-series-replaced:" + tag, "GetOrSetDefault replaced the overflow entry instead of returning it" + tail);
      CHECK(c, ever.size() >= L, "C08:table:premature-overflow:" + tag, vf::sfmt("folded into the overflow entry although only %zu distinct sets were offered", ever.size()) + tail);
    }
    // nothing else may change
    TableImage expect = M;
    expect[addressed] = ret;
    CHECK(c, P == expect, "C08:table:other-entry-changed:" + tag, "an entry the call does not address was added, removed or replaced" + tail);
    // lookups agree with the enumeration
    CHECK(c, table.Get(key) == (P.count(id) ? P[id] : nullptr) && table.Has(key) == (P.count(id) > 0), "C08:table:lookup-differs-from-entries:" + tag, "Get/Has(" + set_name(id) + ") disagree with the enumerated entries" + tail);
#undef tail
    M = P;
    c.state(vf::sfmt("T%zu|", L) + show_image(P, names));
  }
  std::string fin;
  for (auto &kv : M) fin += set_name(kv.first) + ",";
  c.outcome(vf::sfmt("T%zu|", L) + fin);
  static int ns = 0;
  if (ns < 1) { ++ns; c.sample(hist + " => " + show_image(M, names)); }
}

void run(vf::Ctx &c) {
  vf::clock_reset();
  vf::clock_set_autostep_ns(1000);
  static bool quiet = (sc::internal_log::GlobalLogHandler::SetLogLevel(sc::internal_log::LogLevel::None), true);
  (void)quiet;
  int part = c.pick("part", 3);
  if (part == 0) run_small(c);
  else if (part == 1) run_big(c);
  else run_table(c);
}

void setup(vf::Options &o) {
  o.split_depth = 4;
  o.deadline_s = o.thorough ? 1200 : 150;
  o.table_bits = 24;
  g_depth = atoi(o.get("depth", o.thorough ? "9" : "8").c_str());
  g_edepth = atoi(o.get("edepth", o.thorough ? "8" : "7").c_str());
  g_tdepth = atoi(o.get("tdepth", o.thorough ? "5" : "4").c_str());
}

}  // namespace

VF_MAIN("c08_cardinality", "C08", setup, run)
