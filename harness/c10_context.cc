// C10: a Context is an immutable value; the RuntimeContext of a thread is a stack (Engine B).
//  part 0  growing family of contexts: SetValue / SetValues / static wrappers / copies / drops; after EVERY operation
//          every context that is still held is re-queried over all keys and compared with its own model map.
//  part 1  runtime stack: Attach / Detach in arbitrary order (already-detached and foreign tokens included) / token
//          destruction / trace::Scope push and pop in arbitrary order, deep enough to cross the stack's reallocations;
//          model = vector of context identities; GetCurrent() and Tracer::GetCurrentSpan() are compared after every op.
//  part 2  sequential two-thread isolation check (threads run to completion one after the other: deterministic).
//  part 3  DEEP stacks (up to 65 / 128 frames) with a shaped enumeration: attach N, unwind along several plans (newest
//          first, one token out of order, pop to a depth / re-grow / unwind), model compared after every single step.
//  part 4  the stack alphabet of part 1 restricted to the special frames: a Scope over a null span, a Scope made by
//          Tracer::WithActiveSpan, a context whose active-span key holds a value that is not a span.
//  part 5  a custom RuntimeContextStorage installed with SetRuntimeContextStorage: RuntimeContext, Token, Scope and
//          GetCurrentSpan must act through it (and only through it); its own discipline is deliberately not a stack.
#include <algorithm>
#include <map>
#include <unistd.h>
#include <memory>
#include <string>
#include <thread>
#include <vector>

#include <opentelemetry/context/context.h>
#include <opentelemetry/context/runtime_context.h>
#include <opentelemetry/trace/default_span.h>
#include <opentelemetry/trace/scope.h>
#include <opentelemetry/trace/span_context.h>
#include <opentelemetry/trace/tracer.h>

#include <sys/time.h>
#include "seq/vf_seq.h"

namespace nostd = opentelemetry::nostd;
namespace context = opentelemetry::context;
namespace trace = opentelemetry::trace;
using context::Context;
using context::ContextValue;
using context::RuntimeContext;

namespace {

nostd::shared_ptr<trace::Span> make_span(int n) {
  uint8_t t[16], s[8];
  memset(t, n + 1, sizeof t);
  memset(s, n + 1, sizeof s);
  return nostd::shared_ptr<trace::Span>(new trace::DefaultSpan(
      trace::SpanContext(trace::TraceId(nostd::span<const uint8_t, 16>(t, 16)), trace::SpanId(nostd::span<const uint8_t, 8>(s, 8)), trace::TraceFlags(1), false)));
}

// ---- model values ---------------------------------------------------------------------------------
struct MV {
  int index = 0;  // ContextValue alternative: 0 nothing, 2 int64, 5 span
  int64_t i = 0;
  const trace::Span *span = nullptr;
  uint8_t span_byte = 0;
};
std::string show(const MV &m) { return m.index == 0 ? "none" : m.index == 2 ? vf::sfmt("i64:%lld", (long long)m.i) : vf::sfmt("span#%d", m.span_byte - 1); }
std::string show(const ContextValue &v) {
  switch (v.index()) {
    case 0: return "none";
    case 1: return vf::sfmt("bool:%d", int(nostd::get<bool>(v)));
    case 2: return vf::sfmt("i64:%lld", (long long)nostd::get<int64_t>(v));
    case 3: return vf::sfmt("u64:%llu", (unsigned long long)nostd::get<uint64_t>(v));
    case 4: return vf::sfmt("dbl:%g", nostd::get<double>(v));
    case 5: {
      const auto &sp = nostd::get<nostd::shared_ptr<trace::Span>>(v);
      if (!sp) return "span:null";
      return vf::sfmt("span#%d", int(sp->GetContext().trace_id().Id()[0]) - 1);  // reads the span: a freed one is an ASan report
    }
    default: return vf::sfmt("alt%zu", v.index());
  }
}
bool same(const ContextValue &v, const MV &m) {
  if ((int)v.index() != m.index) return false;
  if (m.index == 2) return nostd::get<int64_t>(v) == m.i;
  if (m.index == 5) return nostd::get<nostd::shared_ptr<trace::Span>>(v).get() == m.span;
  return true;
}

using Model = std::map<std::string, MV>;
// Two key sets. Set 0: plain keys, one a proper prefix of another, the empty key. Set 1: keys of EQUAL length that agree up to
// an embedded NUL byte and differ behind it ("k\0x" / "k\0y"), their common prefixes "k\0" and "k", and a longer one: keys are
// string_views, i.e. byte strings with a length, and a comparison that stops at a NUL (strcmp / strncmp) confuses them.
int g_keyset = 0;
#define VF_K(lit) std::string(lit, sizeof(lit) - 1)
const std::vector<std::string> &query_keys() {
  static const std::vector<std::string> k[2] = {{"a", "b", "ab", "", "abc", "A"},
                                                {VF_K("k\0x"), VF_K("k\0y"), VF_K("k\0"), "k", VF_K("k\0xz"), ""}};
  return k[g_keyset];
}
const std::vector<std::string> &set_keys_of() {
  static const std::vector<std::string> k[2] = {{"a", "b", ""}, {VF_K("k\0x"), VF_K("k\0y"), "k"}};
  return k[g_keyset];
}
const std::vector<std::string> &map_keys_of() {
  static const std::vector<std::string> k[2] = {{"a", "b", "ab"}, {VF_K("k\0x"), VF_K("k\0y"), VF_K("k\0")}};
  return k[g_keyset];
}

// the query keys live in exact-size heap blocks without NUL (never modified, shared by all executions)
const vfq::HeapStr &query_block(size_t i) {
  static std::vector<std::unique_ptr<vfq::HeapStr>> blocks[2];
  if (blocks[g_keyset].empty()) for (auto &k : query_keys()) blocks[g_keyset].emplace_back(new vfq::HeapStr(k));
  return *blocks[g_keyset][i];
}

// ==================================================================================================
// part 0: family of contexts
// ==================================================================================================
struct Member {
  std::unique_ptr<Context> ctx;  // null once dropped
  Model model;
};

// the real list behind a context: node addresses renamed in order of first appearance (shows the sharing), keys, values
std::string real_canon(const std::vector<Member> &fam) {
  std::vector<const void *> seen;
  std::string o;
  for (auto &m : fam) {
    if (!m.ctx) { o += "x;"; continue; }
    for (auto *d = m.ctx->head_.get(); d; d = d->next_.get()) {
      size_t l = 0;
      while (l < seen.size() && seen[l] != d) ++l;
      if (l == seen.size()) seen.push_back(d);
      o += vf::sfmt("%zu:", l) + (d->key_ ? std::string(d->key_, d->key_length_) : std::string("~")) + "=" + show(d->value_) + ">";
    }
    o += ";";
  }
  return o;
}

void requery(vf::Ctx &c, std::vector<Member> &fam, const std::string &hist) {
  for (size_t i = 0; i < fam.size(); ++i) {
    if (!fam[i].ctx) continue;
    Context &ctx = *fam[i].ctx;
    for (size_t qi = 0; qi < query_keys().size(); ++qi) {
      const std::string &k = query_keys()[qi];
      const vfq::HeapStr &hk = query_block(qi);
      auto it = fam[i].model.find(k);
      MV want = it == fam[i].model.end() ? MV() : it->second;
      ContextValue got = ctx.GetValue(hk.view());
      if (!same(got, want)) {
        const char *sig = want.index == 0 ? "C10:getvalue:unbound-key-has-value"
                          : got.index() != 0 ? "C10:getvalue:not-most-recent-binding"
                          : k.empty()        ? "C10:getvalue:binding-lost:empty-key"  // the placeholder node of an empty SetValues matches the key ""
                                             : "C10:getvalue:binding-lost";
        c.fail(sig, vf::sfmt("after%s: context %zu GetValue('%s') = %s, model says %s", hist.c_str(), i, vfq::printable(k).c_str(), show(got).c_str(), show(want).c_str()));
      }
      c.check(ctx.HasKey(hk.view()) == (want.index != 0), "C10:haskey", vf::sfmt("after%s: context %zu HasKey('%s') = %d, model value %s", hist.c_str(), i, vfq::printable(k).c_str(), int(ctx.HasKey(hk.view())), show(want).c_str()));
      ContextValue via = RuntimeContext::GetValue(hk.view(), &ctx);
      c.check(same(via, want), "C10:runtimecontext-getvalue", vf::sfmt("after%s: RuntimeContext::GetValue('%s', &context %zu) = %s, model says %s", hist.c_str(), vfq::printable(k).c_str(), i, show(via).c_str(), show(want).c_str()));
    }
    c.check(ctx == *fam[i].ctx, "C10:equality", "a context is not equal to itself");
  }
  c.step();
}

void run_family(vf::Ctx &c) {
  const int depth = atoi(c.opt().get("family-depth", c.thorough() ? "4" : "3").c_str());
  g_keyset = c.pick("keyset", 2);
  const std::vector<std::string> &set_keys = set_keys_of();
  const std::vector<std::string> &map_keys = map_keys_of();
  std::vector<Member> fam;
  fam.push_back({std::unique_ptr<Context>(new Context()), {}});
  std::string hist;
  int serial = 0;
  auto fresh_value = [&](int kind, ContextValue *real, MV *mv) {
    ++serial;
    if (kind == 0) {
      *real = int64_t(1000 + serial);
      mv->index = 2; mv->i = 1000 + serial;
    } else {
      nostd::shared_ptr<trace::Span> sp = make_span(serial);
      mv->index = 5; mv->span = sp.get(); mv->span_byte = uint8_t(serial + 1);
      *real = sp;
    }
  };
  auto fill_map = [&](int subset, std::map<std::string, ContextValue> *real, Model *delta) {
    for (int b = 0; b < 3; ++b)
      if (subset & (1 << b)) {
        ContextValue v; MV mv;
        fresh_value(b == 2 ? 1 : 0, &v, &mv);
        (*real)[map_keys[b]] = v;
        (*delta)[map_keys[b]] = mv;
      }
  };
  requery(c, fam, " start");
  for (int d = 0; d < depth; ++d) {
    std::vector<int> alive;
    for (size_t i = 0; i < fam.size(); ++i) if (fam[i].ctx) alive.push_back((int)i);
    // the target: one of the contexts still held, or (last alternative) "construct a new root context"
    int ti = c.pick("ctx", (int)alive.size() + 1);
    if (ti == (int)alive.size()) {
      int how = c.pick("new", 4);
      c.stage("Context()");
      Member m;
      if (how == 0) { m.ctx.reset(new Context()); hist += " new()"; }
      else if (how == 1) {
        ContextValue v; MV mv; fresh_value(0, &v, &mv);
        vfq::HeapStr hk(set_keys[0]);
        m.ctx.reset(new Context(hk.view(), v));
        hk.scribble();
        m.model[set_keys[0]] = mv;
        hist += " new(a)";
      } else {
        std::map<std::string, ContextValue> vals;
        fill_map(how == 2 ? 0 : 5, &vals, &m.model);
        m.ctx.reset(new Context(vals));
        vals.clear();
        hist += how == 2 ? " new({})" : " new({a,ab})";
      }
      fam.push_back(std::move(m));
    } else {
      int i = alive[ti];
      int nops = 4 + 8 + 1 + 1 + 1 + ((int)alive.size() - 1);
      int op = c.pick("op", nops);
      if (op < 4) {  // SetValue(key, value): ("a",int) ("b",int) ("",int) ("a",span)
        const std::string &k = set_keys[op % 3];
        c.stage("SetValue");
        ContextValue v; MV mv; fresh_value(op / 3, &v, &mv);
        vfq::HeapStr hk(k);
        Member m;
        m.ctx.reset(new Context(fam[i].ctx->SetValue(hk.view(), v)));
        hk.scribble();  // the context owns its keys
        m.model = fam[i].model;
        m.model[k] = mv;
        hist += vf::sfmt(" %zu=ctx%d.SetValue('%s',%s)", fam.size(), i, vfq::printable(k).c_str(), show(mv).c_str());
        fam.push_back(std::move(m));
      } else if (op < 12) {  // SetValues(map)
        int subset = op - 4;
        c.stage("SetValues");
        std::map<std::string, ContextValue> vals;
        Model delta;
        fill_map(subset, &vals, &delta);
        Member m;
        m.ctx.reset(new Context(fam[i].ctx->SetValues(vals)));
        vals.clear();  // the context owns its keys and values
        m.model = fam[i].model;
        for (auto &e : delta) m.model[e.first] = e.second;
        hist += vf::sfmt(" %zu=ctx%d.SetValues{%s%s%s}", fam.size(), i, subset & 1 ? "a" : "", subset & 2 ? ",b" : "", subset & 4 ? ",ab" : "");
        fam.push_back(std::move(m));
      } else if (op == 12) {  // RuntimeContext::SetValue(key, value, &ctx)
        c.stage("RuntimeContext::SetValue");
        ContextValue v; MV mv; fresh_value(0, &v, &mv);
        vfq::HeapStr hk("b");
        Member m;
        m.ctx.reset(new Context(RuntimeContext::SetValue(hk.view(), v, fam[i].ctx.get())));
        hk.scribble();
        m.model = fam[i].model;
        m.model["b"] = mv;
        hist += vf::sfmt(" %zu=RuntimeContext::SetValue('b',%s,&ctx%d)", fam.size(), show(mv).c_str(), i);
        fam.push_back(std::move(m));
      } else if (op == 13) {  // copy construction: the copy answers like the original
        c.stage("copy");
        Member m;
        m.ctx.reset(new Context(*fam[i].ctx));
        m.model = fam[i].model;
        c.check(*m.ctx == *fam[i].ctx, "C10:equality", "a copy of a context is not equal to the original");
        hist += vf::sfmt(" %zu=copy(ctx%d)", fam.size(), i);
        fam.push_back(std::move(m));
      } else if (op == 14) {  // drop: the other contexts must not depend on this handle
        c.stage("drop");
        fam[i].ctx.reset();
        hist += vf::sfmt(" drop(ctx%d)", i);
      } else {  // rebind a variable: ctx_i = ctx_j (j != i; self assignment belongs to C20)
        int j = alive[op - 15 < ti ? op - 15 : op - 15 + 1];
        c.stage("assign");
        *fam[i].ctx = *fam[j].ctx;
        fam[i].model = fam[j].model;
        hist += vf::sfmt(" ctx%d=ctx%d", i, j);
      }
    }
    requery(c, fam, hist);
    c.state(vf::sfmt("fam|%d|", d) + real_canon(fam));
  }
  c.outcome("fam|" + real_canon(fam));
  c.sample("contexts:" + hist + " => " + real_canon(fam));
}

// ==================================================================================================
// part 1: runtime stack
// ==================================================================================================
struct Ident {
  Context ctx;
  std::string name;     // E, A, B, F or S
  int64_t k = 0;        // expected value of key "k" (0: unbound)
  const trace::Span *span = nullptr;  // expected active span (nullptr: none)
  nostd::shared_ptr<trace::Span> span_owner;
  bool null_span = false;  // a Scope over a null span pointer made this frame: what GetCurrentSpan() answers while it is on top is don't-care
};

context::ThreadLocalContextStorage::Stack &real_stack() {
  static context::ThreadLocalContextStorage tls;
  return tls.GetStack();
}
void reset_real_stack() {
  auto &st = real_stack();
  while (st.size_ > 0) st.Pop();
  delete[] st.base_;
  st.base_ = nullptr;
  st.capacity_ = 0;
}

struct StackWorld {
  static constexpr int kFixed = 5;
  std::vector<Ident> ids;  // 0 E, 1 A, 2 B, 3 F, 4 X, then one per Scope
  std::vector<int> model;  // the model stack: identity indices, bottom first
  struct Tok { nostd::unique_ptr<context::Token> tok; int id; };
  struct Scp { std::unique_ptr<trace::Scope> scope; int id; };
  std::vector<Tok> toks;
  std::vector<Scp> scopes;
  int nspans = 0;

  StackWorld() {
    ids.resize(kFixed);
    ids[0].name = "E";
    ids[1].name = "A"; ids[1].ctx = Context("k", ContextValue(int64_t(1))); ids[1].k = 1;
    ids[2].name = "B"; ids[2].span_owner = make_span(100); ids[2].ctx = ids[1].ctx.SetValue(trace::kSpanKey, ids[2].span_owner).SetValue("k", ContextValue(int64_t(2)));
    ids[2].k = 2; ids[2].span = ids[2].span_owner.get();
    ids[3].name = "F"; ids[3].ctx = Context("k", ContextValue(int64_t(3))); ids[3].k = 3;
    // X: derived from B (which has an active span); the active-span key is re-bound to a value that is NOT a span: no span is active in X
    ids[4].name = "X"; ids[4].ctx = ids[2].ctx.SetValue(trace::kSpanKey, ContextValue(int64_t(99))).SetValue("k", ContextValue(int64_t(4))); ids[4].k = 4;
  }
  // identity = what the code compares: the list head (all empty contexts are one identity)
  bool same_identity(int a, int b) const { return ids[a].ctx == ids[b].ctx; }
  int top() const { return model.empty() ? 0 : model.back(); }
  // model of Detach: pop through the most recent frame with that identity, else no change
  bool model_detach(int id) {
    for (size_t pos = model.size(); pos > 0; --pos)
      if (same_identity(model[pos - 1], id)) { model.resize(pos - 1); return true; }
    return false;
  }
  int identity_of(const Context &cx) const {
    for (size_t i = 0; i < ids.size(); ++i) if (ids[i].ctx == cx) return (int)i;
    return -1;
  }
  std::string frame_label(int id, size_t pos) const {
    const Ident &x = ids[id];
    return x.name + (x.name == "S" ? vf::sfmt("@%zu", pos) : "") + vf::sfmt("k%lld%s", (long long)x.k, x.span ? "s" : x.null_span ? "n" : "");
  }
  // canonical state from the REAL stack object (size, capacity, frames) plus the live tokens / scopes
  std::string canon() const {
    auto &st = real_stack();
    std::string o = vf::sfmt("n%zu c%zu [", st.size_, st.capacity_);
    std::vector<long> where(ids.size(), -1);
    for (size_t p = 0; p < st.size_; ++p) {
      int id = identity_of(st.base_[p]);
      if (id < 0) { o += "? "; continue; }
      if (ids[id].name == "S") where[id] = (long)p;
      o += frame_label(id, p) + " ";
    }
    o += "] tok{";
    std::vector<std::string> ls;
    auto holder = [&](int id) { return ids[id].name != "S" ? ids[id].name : where[id] >= 0 ? vf::sfmt("S@%ld", where[id]) : std::string("dead"); };
    for (auto &t : toks) ls.push_back(holder(t.id));
    std::sort(ls.begin(), ls.end());
    for (auto &l : ls) o += l + ",";
    o += "} scope{";
    ls.clear();
    for (auto &s : scopes) ls.push_back(holder(s.id));
    std::sort(ls.begin(), ls.end());
    for (auto &l : ls) o += l + ",";
    return o + "}";
  }
  std::string model_str() const {
    std::string o = "[";
    for (size_t p = 0; p < model.size(); ++p) o += frame_label(model[p], p) + " ";
    return o + "]";
  }
};

void check_current(vf::Ctx &c, StackWorld &w, const std::string &hist) {
  const Ident &want = w.ids[w.top()];
  Context cur = RuntimeContext::GetCurrent();
  if (!(cur == want.ctx)) {
    int got = w.identity_of(cur);
    c.fail("C10:getcurrent", vf::sfmt("after%s: GetCurrent() is %s, the model stack is %s", hist.c_str(), got < 0 ? "an unknown context" : w.ids[got].name.c_str(), w.model_str().c_str()));
  }
  ContextValue kv = cur.GetValue("k");
  MV mk; if (want.k) { mk.index = 2; mk.i = want.k; }
  c.check(same(kv, mk), "C10:getcurrent-values", vf::sfmt("after%s: the current context answers GetValue('k') = %s, expected %s", hist.c_str(), show(kv).c_str(), show(mk).c_str()));
  ContextValue rv = RuntimeContext::GetValue("k");
  c.check(same(rv, mk), "C10:runtimecontext-getvalue-current", vf::sfmt("after%s: RuntimeContext::GetValue('k') = %s, expected %s", hist.c_str(), show(rv).c_str(), show(mk).c_str()));
  // RuntimeContext::SetValue(key, value) WITHOUT a context argument derives from the current context and leaves it current
  {
    Context derived = RuntimeContext::SetValue("k2", ContextValue(int64_t(7)));
    MV m7; m7.index = 2; m7.i = 7;
    ContextValue d2 = derived.GetValue("k2"), dk = derived.GetValue("k");
    c.check(same(d2, m7), "C10:runtimecontext-setvalue-current:new-binding", vf::sfmt("after%s: RuntimeContext::SetValue('k2',7) returned a context in which GetValue('k2') = %s", hist.c_str(), show(d2).c_str()));
    c.check(same(dk, mk), "C10:runtimecontext-setvalue-current:not-derived-from-current",
            vf::sfmt("after%s: the context returned by RuntimeContext::SetValue('k2',7) answers GetValue('k') = %s, the current context (top frame of %s) has %s", hist.c_str(), show(dk).c_str(), w.model_str().c_str(), show(mk).c_str()));
    ContextValue ds = derived.GetValue(trace::kSpanKey), cs = cur.GetValue(trace::kSpanKey);
    bool same_span = ds.index() == cs.index() && (ds.index() != 5 || nostd::get<nostd::shared_ptr<trace::Span>>(ds).get() == nostd::get<nostd::shared_ptr<trace::Span>>(cs).get());
    c.check(same_span, "C10:runtimecontext-setvalue-current:not-derived-from-current", vf::sfmt("after%s: the context returned by RuntimeContext::SetValue('k2',7) does not carry the active span of the current context", hist.c_str()));
    c.check(RuntimeContext::GetCurrent() == cur && !cur.HasKey("k2"), "C10:runtimecontext-setvalue-current:changed-current", vf::sfmt("after%s: RuntimeContext::SetValue('k2',7) changed the current context", hist.c_str()));
  }
  nostd::shared_ptr<trace::Span> sp = trace::Tracer::GetCurrentSpan();
  if (want.null_span) {  // a Scope over a null span is on top: the statement says nothing about GetCurrentSpan() here (it must not crash)
    c.counted(sp ? "dontcare_nullscope_span_nonnull" : "dontcare_nullscope_span_null");
    return;
  }
  c.check(bool(sp), "C10:getcurrentspan-null", "GetCurrentSpan() returned a null pointer");
  if (want.span)
    c.check(sp.get() == want.span, "C10:getcurrentspan", vf::sfmt("after%s: GetCurrentSpan() is not the span of the top frame %s (valid=%d)", hist.c_str(), w.model_str().c_str(), int(sp->GetContext().IsValid())));
  else
    c.check(!sp->GetContext().IsValid(), "C10:getcurrentspan-stale", vf::sfmt("after%s: no span is active in the top frame %s but GetCurrentSpan() returns a valid span #%d", hist.c_str(),
                                                                              w.model_str().c_str(), int(sp->GetContext().trace_id().Id()[0]) - 1));
}

// Detach's return value: fixed by the statement only when the identity is on the stack (true) or is a non-empty
// identity that is not on the stack (false); the empty-context token with no empty frame on the stack is don't-care.
void check_detach_result(vf::Ctx &c, bool got, bool found, bool empty_identity, const std::string &hist) {
  if (found) c.check(got, "C10:detach-returns-false-for-attached", vf::sfmt("after%s: Detach returned false although the token's context was on the stack", hist.c_str()));
  else if (!empty_identity) c.check(!got, "C10:detach-returns-true-for-foreign", vf::sfmt("after%s: Detach returned true for a token whose context was not on the stack", hist.c_str()));
  else c.counted(got ? "dontcare_empty_token_detach_true" : "dontcare_empty_token_detach_false");
}

void run_stack(vf::Ctx &c) {
  const int depth = atoi(c.opt().get("stack-depth", c.thorough() ? "9" : "6").c_str());
  reset_real_stack();
  std::string hist;
  {
    StackWorld w;
    check_current(c, w, " start");
    for (int d = 0; d < depth; ++d) {
      {
        vf::H128 h; h.add(0xc10); h.add((uint64_t)(depth - d)); h.add_str(w.canon());
        // complete: Stack has only size_, capacity_ and the frames; a token acts through its context's identity only;
        // a Scope frame's content (inherited "k", own span) is part of its label
        c.prune_point(h);
      }
      // alphabet, simplest first.  Tokens with the same context are interchangeable (a Token holds nothing but its
      // const Context), so Detach / ~Token choose an identity among the live tokens, not a token index.
      std::vector<int> tid;  // distinct identities among the live tokens, in E A B F order
      for (int id = 0; id < StackWorld::kFixed; ++id)
        for (auto &t : w.toks) if (t.id == id) { tid.push_back(id); break; }
      int nt = (int)tid.size(), ns = (int)w.scopes.size();
      int n = 3 + 1 + 1 + nt + nt + ns;
      int op = c.pick("op", n);
      c.step();
      auto newest = [&](int id) { for (size_t j = w.toks.size(); j > 0; --j) if (w.toks[j - 1].id == id) return j - 1; return size_t(0); };
      auto oldest = [&](int id) { for (size_t j = 0; j < w.toks.size(); ++j) if (w.toks[j].id == id) return j; return size_t(0); };
      if (op < 3) {  // Attach(E / A / B)
        c.stage("Attach");
        int id = op;
        nostd::unique_ptr<context::Token> t = RuntimeContext::Attach(w.ids[id].ctx);
        c.check(bool(t), "C10:attach-null-token", "Attach returned a null token");
        c.check(*t == w.ids[id].ctx, "C10:token-context", "the token returned by Attach does not compare equal to the attached context");
        w.model.push_back(id);
        w.toks.push_back({std::move(t), id});
        hist += " Attach(" + w.ids[id].name + ")";
      } else if (op == 3) {  // Scope push
        c.stage("Scope");
        int parent = w.top();
        Ident s;
        s.name = "S";
        s.span_owner = make_span(w.nspans++);
        s.span = s.span_owner.get();
        s.k = w.ids[parent].k;
        std::unique_ptr<trace::Scope> sc(new trace::Scope(s.span_owner));
        s.ctx = sc->token_->context_;  // the context the Scope attached
        c.check(w.identity_of(s.ctx) < 0, "C10:scope-context-not-fresh", "the context attached by a Scope compares equal to an existing context");
        w.ids.push_back(s);
        int id = (int)w.ids.size() - 1;
        w.model.push_back(id);
        w.scopes.push_back({std::move(sc), id});
        hist += " Scope+";
      } else if (op == 4) {  // a foreign token: its context was never attached
        c.stage("ForeignToken");
        w.toks.push_back({nostd::unique_ptr<context::Token>(new context::Token(w.ids[3].ctx)), 3});
        hist += " ForeignToken(F)";
      } else if (op < 5 + nt) {  // Detach(token): the token stays alive and can be detached again
        int id = tid[op - 5];
        size_t j = oldest(id);  // the token of the OLDEST attach of that context: still matched most-recent-first
        c.stage("Detach");
        hist += vf::sfmt(" Detach(token:%s)", w.ids[id].name.c_str());
        bool got = RuntimeContext::Detach(*w.toks[j].tok);
        bool found = w.model_detach(id);
        check_detach_result(c, got, found, w.same_identity(id, 0), hist);
      } else if (op < 5 + 2 * nt) {  // ~Token
        int id = tid[op - 5 - nt];
        size_t j = newest(id);
        c.stage("~Token");
        hist += vf::sfmt(" ~Token(%s)", w.ids[id].name.c_str());
        w.toks.erase(w.toks.begin() + j);  // destroys the real token: detaches
        w.model_detach(id);
      } else {  // Scope pop (any live scope, not only the innermost)
        int j = op - 5 - 2 * nt;
        c.stage("~Scope");
        int id = w.scopes[j].id;
        hist += vf::sfmt(" Scope-(s%d)", j);
        w.scopes.erase(w.scopes.begin() + j);
        w.model_detach(id);
      }
      check_current(c, w, hist);
      c.state(vf::sfmt("stk|%d|", depth - d - 1) + w.canon());
    }
    c.outcome("stk|" + w.canon());
    c.sample("runtime stack:" + hist + " => " + w.canon());
    // unwind: destroy the scopes and tokens newest first, checking the model on the way down
    c.stage("unwind");
    while (!w.scopes.empty() || !w.toks.empty()) {
      if (!w.toks.empty()) { int id = w.toks.back().id; w.toks.pop_back(); w.model_detach(id); }
      else { int id = w.scopes.back().id; w.scopes.pop_back(); w.model_detach(id); }
      check_current(c, w, hist + " ...unwind");
    }
    c.check(w.model.empty() && real_stack().size_ == 0, "C10:frames-left-after-all-tokens-died",
            vf::sfmt("after%s and destruction of every token and scope %zu frames remain attached", hist.c_str(), real_stack().size_));
  }
}

// ==================================================================================================
// part 2: what one thread attaches is not visible to another (sequential, deterministic)
// ==================================================================================================
void run_threads(vf::Ctx &c) {
  reset_real_stack();
  int main_frames = c.pick("main-frames", 3);           // 0, 1, 3
  int other_frames = 1 + 3 * c.pick("other-frames", 3); // 1, 4, 7: crosses the reallocations of the other thread's stack
  bool leave_attached = c.flip("leave-attached");       // the first thread ends with frames still attached
  if (main_frames == 2) main_frames = 3;
  // the main thread hands its NEWEST token to the second thread, which destroys it there: a token whose context is not on
  // that thread's stack changes nothing there, and the main thread's frames are the main thread's (nothing is popped)
  bool foreign_death = main_frames > 0 && c.flip("token-dies-on-other-thread");
  c.stage("threads");
  Context a("k", ContextValue(int64_t(1))), b("k", ContextValue(int64_t(2)));
  std::vector<nostd::unique_ptr<context::Token>> mine;
  for (int i = 0; i < main_frames; ++i) mine.push_back(RuntimeContext::Attach(a));
  struct Seen { bool start_empty = false, own_top = false, end_ok = false; } s1, s2;
  nostd::unique_ptr<context::Token> handed;
  bool foreign_death_ok = true;
  auto body = [&](Seen *s, bool leak) {
    s->start_empty = RuntimeContext::GetCurrent() == Context();
    std::vector<nostd::unique_ptr<context::Token>> ts;
    for (int i = 0; i < other_frames; ++i) ts.push_back(RuntimeContext::Attach(b));
    s->own_top = RuntimeContext::GetCurrent() == b;
    if (handed) {
      handed.reset();  // ~Token of a context attached by the main thread, executed on this thread
      foreign_death_ok = RuntimeContext::GetCurrent() == b;
      for (int i = 0; i < other_frames && foreign_death_ok; ++i) {  // none of this thread's frames went away: each of its tokens still pops exactly one
        ts.pop_back();
        foreign_death_ok = RuntimeContext::GetCurrent() == (i + 1 < other_frames ? b : Context());
      }
      for (int i = (int)ts.size(); i < other_frames; ++i) ts.push_back(RuntimeContext::Attach(b));
    }
    if (leak) { for (auto &t : ts) t.release(); s->end_ok = RuntimeContext::GetCurrent() == b; }
    else { ts.clear(); s->end_ok = RuntimeContext::GetCurrent() == Context(); }
  };
  std::thread t1(body, &s1, leave_attached);
  t1.join();
  bool main_after_1 = RuntimeContext::GetCurrent() == (main_frames ? a : Context());
  if (foreign_death) { handed = std::move(mine.back()); mine.pop_back(); }
  std::thread t2(body, &s2, false);
  t2.join();
  bool main_after_2 = RuntimeContext::GetCurrent() == (main_frames ? a : Context());
  size_t main_real_frames = real_stack().size_;
  c.step(4);
  c.check(s1.start_empty, "C10:thread-sees-foreign-frames", "a new thread's current context is not empty although only the main thread attached contexts");
  c.check(s1.own_top && s1.end_ok, "C10:thread-own-stack", "a thread does not see its own attached context");
  c.check(main_after_1, "C10:thread-changed-other-stack", "the main thread's current context changed while another thread attached / detached contexts");
  c.check(s2.start_empty, "C10:thread-sees-foreign-frames", "a second thread sees frames that the first thread left attached (or the main thread's)");
  c.check(s2.own_top && s2.end_ok && main_after_2, "C10:thread-own-stack", "second thread / main thread current context wrong");
  c.check(foreign_death_ok, "C10:thread-foreign-token-death", "a token of the main thread that was destroyed on a second thread changed the second thread's stack");
  c.check(main_real_frames == (size_t)main_frames, "C10:thread-changed-other-stack", vf::sfmt("the main thread's stack has %zu frames after the other threads ran, it attached %d", main_real_frames, main_frames));
  mine.clear();
  // with the handed-over token destroyed elsewhere (no effect there, none here) one frame of the main thread has no token left
  c.check(RuntimeContext::GetCurrent() == (foreign_death ? a : Context()) && real_stack().size_ == (foreign_death ? 1u : 0u), "C10:getcurrent",
          foreign_death ? "main thread: after one of its tokens died on another thread and the others here, not exactly the one token-less frame remains" : "main thread: frames remain after all tokens died");
  std::string o = vf::sfmt("thr|%d|%d|%d|%d", main_frames, other_frames, int(leave_attached), int(foreign_death));
  c.state(o);
  c.outcome(o);
  c.sample(vf::sfmt("threads: main holds %d frames, two threads attach %d frames one after the other (%s): each sees only its own stack", main_frames, other_frames,
                    leave_attached ? "first leaves them attached" : "all detached"));
}

// ==================================================================================================
// part 3: DEEP stacks, shaped enumeration (growth and any shrink / re-growth path of the stack's storage)
// ==================================================================================================
// The full-alphabet exploration of part 1 is bounded by its total operation count; this part reaches stack depths up
// to 65 (thorough 128) with a fixed shape: attach N frames, then unwind along one of several plans, comparing
// GetCurrent / GetCurrentSpan / visible values with the model after EVERY attach and EVERY detach, and Detach's
// return value where the statement fixes it.
const std::vector<int> &deep_sizes(bool thorough) {
  static std::vector<int> q, t;
  if (q.empty()) {
    for (int n = 1; n <= 16; ++n) q.push_back(n);
    for (int n : {31, 33, 65}) q.push_back(n);
    for (int n = 1; n <= 34; ++n) t.push_back(n);
    for (int n : {62, 63, 64, 65, 126, 127, 128}) t.push_back(n);
  }
  return thorough ? t : q;
}

void run_deep(vf::Ctx &c) {
  const std::vector<int> &sizes = deep_sizes(c.thorough());
  const int N = sizes[c.pick("deep-n", (int)sizes.size())];
  const int variant = c.pick("deep-variant", 3);  // 0 distinct contexts, 1 every 3rd attach re-attaches an earlier context, 2 trace::Scope
  const int by = variant == 2 ? 1 : c.pick("deep-unwind-by", 2);  // 0 Detach(token), token kept alive; 1 destruction (~Token / ~Scope)
  // unwind plans
  struct Plan { int kind, arg; };  // 0 newest-first; 1 detach the token of attach #arg (1-based) out of order, then newest-first;
                                   // 2 pop newest-first down to depth arg, attach again up to N, unwind newest-first
  std::vector<Plan> plans;
  plans.push_back({0, 0});
  for (int k : {1, N / 4, N / 2, N - 1}) {
    bool dup = k < 1 || k > N - 1;
    for (auto &pl : plans) dup |= (pl.kind == 1 && pl.arg == k);
    if (!dup) plans.push_back({1, k});
  }
  for (int d : {N / 4 + 1, N / 4, N / 4 - 1, 1, 0}) {
    bool dup = d < 0 || d >= N;
    for (auto &pl : plans) dup |= (pl.kind == 2 && pl.arg == d);
    if (!dup) plans.push_back({2, d});
  }
  const Plan plan = plans[c.pick("deep-plan", (int)plans.size())];
  static const char *const vname[] = {"distinct", "reattach-every-3rd", "scope"};
  std::string prefix = vf::sfmt(" deep N=%d %s unwind-by=%s plan=%s", N, vname[variant], by ? "destruction" : "Detach(token)",
                                plan.kind == 0 ? "newest-first" : plan.kind == 1 ? vf::sfmt("token#%d-out-of-order-then-newest-first", plan.arg).c_str()
                                                                                 : vf::sfmt("pop-to-depth-%d-regrow-unwind", plan.arg).c_str());
  reset_real_stack();
  c.stage("deep:attach");
  // A deep execution takes milliseconds. If the code under test spins (Detach's pop loop never terminates when a frame
  // it is looking for has been lost) the verdict should not wait for the core's 30 s alarm (120 s in the confirming
  // replays): this part shortens the watchdog of its own executions to 10 s. The core re-arms / clears it afterwards.
  {
    // CPU time, not wall-clock time: a wall-clock watchdog fires spuriously on an overloaded machine
    struct itimerval it;
    memset(&it, 0, sizeof it);
    it.it_value.tv_sec = 10;
    setitimer(ITIMER_PROF, &it, nullptr);
  }
  size_t max_capacity = 0;
  {
    StackWorld w;
    std::vector<int> ident_for((size_t)N, -1);  // identity used by attach #i (variants 0 and 1): stable across re-growth
    struct Held { nostd::unique_ptr<context::Token> tok; std::unique_ptr<trace::Scope> scope; int id; bool done; };
    std::vector<Held> held;  // in attach order
    // the real Stack: size, capacity and the identity of every frame
    auto real_state = [&]() {
      auto &st = real_stack();
      if (st.capacity_ > max_capacity) max_capacity = st.capacity_;
      std::string o = vf::sfmt("deep|n%zu c%zu [", st.size_, st.capacity_);
      for (size_t pos = 0; pos < st.size_; ++pos) {
        int id = w.identity_of(st.base_[pos]);
        o += id < 0 ? std::string("? ") : id == 0 ? std::string("E ") : w.ids[id].name == "S" ? vf::sfmt("S%d ", (int)pos) : vf::sfmt("%s%lld%s ", w.ids[id].name.c_str(), (long long)w.ids[id].k, w.ids[id].span ? "s" : "");
      }
      return o + "]";
    };
    auto after = [&](const std::string &what) {
      c.step();
      check_current(c, w, prefix + ": " + what);
      c.state(real_state());
    };
    auto attach = [&](int i) {  // the i-th frame (0-based)
      c.stage("deep:attach");
      if (variant == 2) {
        Ident s;
        s.name = "S";
        s.span_owner = make_span(w.nspans++ % 200);
        s.span = s.span_owner.get();
        s.k = w.ids[w.top()].k;
        std::unique_ptr<trace::Scope> sc(new trace::Scope(s.span_owner));
        s.ctx = sc->token_->context_;
        w.ids.push_back(s);
        int id = (int)w.ids.size() - 1;
        w.model.push_back(id);
        held.push_back({nostd::unique_ptr<context::Token>(), std::move(sc), id, false});
      } else {
        if (ident_for[i] < 0) {
          if (variant == 1 && i % 3 == 2) ident_for[i] = ident_for[i - 2];  // the same context again: matched most-recent-first
          else {
            Ident x;
            x.name = "D";
            x.k = i + 1;
            x.ctx = Context("k", ContextValue(int64_t(i + 1)));
            if (i % 2) { x.span_owner = make_span(i % 200); x.span = x.span_owner.get(); x.ctx = x.ctx.SetValue(trace::kSpanKey, x.span_owner); }
            w.ids.push_back(x);
            ident_for[i] = (int)w.ids.size() - 1;
          }
        }
        int id = ident_for[i];
        nostd::unique_ptr<context::Token> t = RuntimeContext::Attach(w.ids[id].ctx);
        c.check(bool(t) && *t == w.ids[id].ctx, "C10:token-context", "Attach returned a null token or one that does not compare equal to the attached context");
        w.model.push_back(id);
        held.push_back({std::move(t), nullptr, id, false});
      }
      after(vf::sfmt("attach #%d (depth %zu)", i + 1, w.model.size()));
    };
    auto detach = [&](size_t t, bool keep_usable) {  // through the token / scope created by the t-th attach of this execution
      Held &h = held[t];
      int id = h.id;
      std::string what;
      if (h.scope) {
        c.stage("deep:unwind");
        h.scope.reset();
        w.model_detach(id);
        h.done = true;
        what = vf::sfmt("~Scope of attach #%zu", t + 1);
      } else if (by == 1) {
        c.stage("deep:unwind");
        h.tok.reset();
        w.model_detach(id);
        h.done = true;
        what = vf::sfmt("~Token of attach #%zu", t + 1);
      } else {
        c.stage("deep:unwind");
        bool got = RuntimeContext::Detach(*h.tok);
        bool found = w.model_detach(id);
        what = vf::sfmt("Detach(token of attach #%zu) = %d", t + 1, int(got));
        check_detach_result(c, got, found, w.same_identity(id, 0), prefix + ": " + what);
        h.done = !keep_usable;  // an out-of-order token is detached a second time by the sweep (already detached: no effect)
      }
      after(what + vf::sfmt(" (depth %zu)", w.model.size()));
    };
    auto sweep_newest_first = [&](size_t down_to_depth) {
      for (size_t t = held.size(); t > 0 && w.model.size() > down_to_depth; --t)
        if (!held[t - 1].done) detach(t - 1, false);
    };
    auto sweep_all = [&]() {
      for (size_t t = held.size(); t > 0; --t)
        if (!held[t - 1].done) detach(t - 1, false);
    };
    check_current(c, w, prefix + ": start");
    for (int i = 0; i < N; ++i) attach(i);
    if (plan.kind == 1) {
      detach((size_t)plan.arg - 1, true);
    } else if (plan.kind == 2) {
      sweep_newest_first((size_t)plan.arg);
      for (int i = (int)w.model.size(); i < N; ++i) attach(i);
    }
    sweep_all();
    c.stage("deep:end");
    c.check(w.model.empty() && real_stack().size_ == 0, "C10:frames-left-after-all-tokens-died",
            vf::sfmt("after%s: every token / scope was detached or destroyed but %zu frames remain attached (model %zu)", prefix.c_str(), real_stack().size_, w.model.size()));
    held.clear();  // the kept tokens die on an empty stack
    check_current(c, w, prefix + ": all tokens destroyed");
  }
  c.outcome("deep|" + prefix + vf::sfmt("|maxcap%zu", max_capacity));
  if (N >= 7) c.sample("runtime stack," + prefix + vf::sfmt(": current context / span / Detach results equal the model after every attach and detach (capacity reached %zu)", max_capacity));
}

// ==================================================================================================
// part 4: special frames (null-span Scope, Tracer::WithActiveSpan, non-span value under the active-span key)
// ==================================================================================================
// Same world, model and oracle as part 1 over a reduced alphabet, so that the extra frames do not multiply the
// depth-6/9 exploration of part 1: Attach(A), Attach(X) [active-span key bound to an int64], Scope(span) made by
// Tracer::WithActiveSpan, Scope(null span pointer), Scope(span) constructed directly; destruction of any live token
// (by identity, newest first) and of any live scope (out of order included).
void run_special(vf::Ctx &c) {
  const int depth = atoi(c.opt().get("special-depth", c.thorough() ? "7" : "5").c_str());
  reset_real_stack();
  std::string hist;
  {
    StackWorld w;
    check_current(c, w, " start");
    for (int d = 0; d < depth; ++d) {
      {
        vf::H128 h; h.add(0xc14); h.add((uint64_t)(depth - d)); h.add_str(w.canon());
        c.prune_point(h);  // complete for the same reason as in part 1 (the frame label names null-span scopes)
      }
      std::vector<int> tid;
      for (int id = 0; id < StackWorld::kFixed; ++id)
        for (auto &t : w.toks) if (t.id == id) { tid.push_back(id); break; }
      int nt = (int)tid.size(), ns = (int)w.scopes.size();
      int op = c.pick("op", 5 + nt + ns);
      c.step();
      if (op < 2) {  // Attach(A) / Attach(X)
        c.stage("Attach");
        int id = op == 0 ? 1 : 4;
        nostd::unique_ptr<context::Token> t = RuntimeContext::Attach(w.ids[id].ctx);
        c.check(bool(t) && *t == w.ids[id].ctx, "C10:token-context", "Attach returned a null token or one that does not compare equal to the attached context");
        w.model.push_back(id);
        w.toks.push_back({std::move(t), id});
        hist += " Attach(" + w.ids[id].name + ")";
      } else if (op < 5) {  // Scope over a span via WithActiveSpan / over a null span pointer / constructed directly
        int parent = w.top();
        Ident s;
        s.name = "S";
        s.k = w.ids[parent].k;
        std::unique_ptr<trace::Scope> sc;
        if (op == 3) {
          c.stage("Scope(null)");
          s.null_span = true;
          nostd::shared_ptr<trace::Span> none;
          sc.reset(new trace::Scope(none));
          hist += " Scope+(null)";
        } else {
          // every other directly constructed Scope re-activates the span that is ALREADY active (when the top frame is a
          // scope over a real span): one more frame over the same span, released like any other
          const bool again = op == 4 && w.ids[parent].span_owner && !w.ids[parent].null_span && w.ids.size() % 2 == 1;
          s.span_owner = again ? w.ids[parent].span_owner : make_span(w.nspans++);
          s.span = s.span_owner.get();
          if (again) hist += " (same span again)";
          if (op == 2) {
            c.stage("WithActiveSpan");
            sc.reset(new trace::Scope(trace::Tracer::WithActiveSpan(s.span_owner)));
            hist += " WithActiveSpan+";
          } else {
            c.stage("Scope");
            sc.reset(new trace::Scope(s.span_owner));
            hist += " Scope+";
          }
        }
        s.ctx = sc->token_->context_;
        c.check(w.identity_of(s.ctx) < 0, "C10:scope-context-not-fresh", "the context attached by a Scope compares equal to an existing context");
        w.ids.push_back(s);
        int id = (int)w.ids.size() - 1;
        w.model.push_back(id);
        w.scopes.push_back({std::move(sc), id});
      } else if (op < 5 + nt) {  // ~Token (newest token of that identity)
        int id = tid[op - 5];
        size_t j = 0;
        for (size_t q = w.toks.size(); q > 0; --q) if (w.toks[q - 1].id == id) { j = q - 1; break; }
        c.stage("~Token");
        hist += vf::sfmt(" ~Token(%s)", w.ids[id].name.c_str());
        w.toks.erase(w.toks.begin() + j);
        w.model_detach(id);
      } else {  // Scope pop (any live scope)
        int j = op - 5 - nt;
        c.stage("~Scope");
        int id = w.scopes[j].id;
        hist += vf::sfmt(" Scope-(s%d%s)", j, w.ids[id].null_span ? ":null" : "");
        w.scopes.erase(w.scopes.begin() + j);
        w.model_detach(id);
      }
      check_current(c, w, hist);
      c.state(vf::sfmt("spc|%d|", depth - d - 1) + w.canon());
    }
    c.outcome("spc|" + w.canon());
    if (hist.find("null") != std::string::npos || hist.find("(X)") != std::string::npos) c.sample("runtime stack, special frames:" + hist + " => " + w.canon());
    c.stage("unwind");
    while (!w.scopes.empty() || !w.toks.empty()) {
      if (!w.toks.empty()) { int id = w.toks.back().id; w.toks.pop_back(); w.model_detach(id); }
      else { int id = w.scopes.back().id; w.scopes.pop_back(); w.model_detach(id); }
      check_current(c, w, hist + " ...unwind");
    }
    c.check(w.model.empty() && real_stack().size_ == 0, "C10:frames-left-after-all-tokens-died",
            vf::sfmt("after%s and destruction of every token and scope %zu frames remain attached", hist.c_str(), real_stack().size_));
  }
}

// ==================================================================================================
// part 5: a custom RuntimeContextStorage
// ==================================================================================================
// The statement's stack discipline is a property of the DEFAULT storage.  For a storage installed with
// SetRuntimeContextStorage the only demand is delegation: RuntimeContext::GetCurrent / Attach / Detach, Token::~Token,
// trace::Scope, Tracer::GetCurrentSpan and the RuntimeContext::SetValue / GetValue helpers act through the installed
// storage, hand its answers back unchanged, and leave the default thread-local stack alone.  The harness storage is
// deliberately NOT a stack (Detach removes only the most recent frame equal to the token, nothing above it), so an
// implementation that kept using the default storage, or that re-implemented the unwinding itself, answers differently.
class RecordingStorage : public context::RuntimeContextStorage {
 public:
  std::vector<Context> frames;
  std::string log;                         // one letter per call: G, A, D
  context::Token *last_created = nullptr;  // token handed out by the last Attach
  Context last_attached;
  context::Token *last_detached = nullptr;
  bool last_detach_result = false;
  Context peek() const { return frames.empty() ? Context() : frames.back(); }

  Context GetCurrent() noexcept override { log += 'G'; return peek(); }
  nostd::unique_ptr<context::Token> Attach(const Context &cx) noexcept override {
    log += 'A';
    frames.push_back(cx);
    last_attached = cx;
    nostd::unique_ptr<context::Token> t = CreateToken(cx);
    last_created = t.get();
    return t;
  }
  bool Detach(context::Token &t) noexcept override {
    log += 'D';
    last_detached = &t;
    last_detach_result = false;
    for (size_t pos = frames.size(); pos > 0; --pos)
      if (t == frames[pos - 1]) { frames.erase(frames.begin() + (long)(pos - 1)); last_detach_result = true; break; }
    return last_detach_result;
  }
};

nostd::shared_ptr<context::RuntimeContextStorage> &default_storage() {
  static nostd::shared_ptr<context::RuntimeContextStorage> keep = RuntimeContext::GetStorage();  // captured before any custom storage is installed
  return keep;
}
struct RestoreDefaultStorage {
  ~RestoreDefaultStorage() { RuntimeContext::SetRuntimeContextStorage(default_storage()); }
};

void run_custom_storage(vf::Ctx &c) {
  const int depth = atoi(c.opt().get("custom-depth", c.thorough() ? "7" : "5").c_str());
  reset_real_stack();
  default_storage();
  RestoreDefaultStorage restore;  // declared first: runs after every token / scope of this execution is gone
  RecordingStorage *rec = new RecordingStorage();
  nostd::shared_ptr<context::RuntimeContextStorage> custom(rec);
  c.stage("SetRuntimeContextStorage");
  RuntimeContext::SetRuntimeContextStorage(custom);
  c.check(RuntimeContext::GetConstRuntimeContextStorage().get() == rec, "C10:custom-storage:not-installed", "GetConstRuntimeContextStorage() does not return the storage given to SetRuntimeContextStorage");
  Context A("k", ContextValue(int64_t(1))), B("k", ContextValue(int64_t(2)));
  const Context *fixed[2] = {&A, &B};
  struct Tok { nostd::unique_ptr<context::Token> tok; std::string name; };
  struct Scp { std::unique_ptr<trace::Scope> scope; const trace::Span *span; nostd::shared_ptr<trace::Span> owner; context::Token *token; };
  std::vector<Tok> toks;
  std::vector<Scp> scopes;
  std::string hist;
  int nspans = 0;
  // after every operation: what RuntimeContext answers is what the storage holds, the default stack is untouched
  auto observe = [&]() {
    c.stage("custom:observe");
    Context top = rec->peek();
    rec->log.clear();
    Context cur = RuntimeContext::GetCurrent();
    c.check(rec->log == "G", "C10:custom-storage:getcurrent-not-delegated", vf::sfmt("after%s: RuntimeContext::GetCurrent() made the calls '%s' on the installed storage (expected one GetCurrent)", hist.c_str(), rec->log.c_str()));
    c.check(cur == top, "C10:custom-storage:getcurrent-not-delegated", vf::sfmt("after%s: RuntimeContext::GetCurrent() is not the context the installed storage returned", hist.c_str()));
    ContextValue want_k = top.GetValue("k"), got_k = RuntimeContext::GetValue("k");
    c.check(show(want_k) == show(got_k), "C10:custom-storage:getvalue-not-delegated", vf::sfmt("after%s: RuntimeContext::GetValue('k') = %s, the installed storage's current context has %s", hist.c_str(), show(got_k).c_str(), show(want_k).c_str()));
    Context derived = RuntimeContext::SetValue("k2", ContextValue(int64_t(7)));
    c.check(show(derived.GetValue("k")) == show(want_k) && show(derived.GetValue("k2")) == "i64:7", "C10:custom-storage:setvalue-not-delegated",
            vf::sfmt("after%s: RuntimeContext::SetValue('k2',7) did not derive from the installed storage's current context", hist.c_str()));
    ContextValue want_s = top.GetValue(trace::kSpanKey);
    nostd::shared_ptr<trace::Span> sp = trace::Tracer::GetCurrentSpan();
    c.check(bool(sp), "C10:getcurrentspan-null", "GetCurrentSpan() returned a null pointer");
    if (want_s.index() == 5)
      c.check(sp.get() == nostd::get<nostd::shared_ptr<trace::Span>>(want_s).get(), "C10:custom-storage:getcurrentspan-not-delegated", vf::sfmt("after%s: GetCurrentSpan() is not the active span of the installed storage's current context", hist.c_str()));
    else
      c.check(!sp->GetContext().IsValid(), "C10:custom-storage:getcurrentspan-not-delegated", vf::sfmt("after%s: GetCurrentSpan() is a valid span although the installed storage's current context has none", hist.c_str()));
    c.check(rec->log.find_first_of("AD") == std::string::npos, "C10:custom-storage:query-modifies", vf::sfmt("after%s: the query helpers attached / detached on the installed storage (calls '%s')", hist.c_str(), rec->log.c_str()));
    auto &st = real_stack();
    c.check(st.size_ == 0, "C10:custom-storage:default-stack-used", vf::sfmt("after%s: %zu frames were pushed on the default thread-local stack while a custom storage is installed", hist.c_str(), st.size_));
  };
  auto canon = [&]() {
    std::string o = "[";
    for (auto &f : rec->frames) {
      ContextValue sv = f.GetValue(trace::kSpanKey);
      o += show(f.GetValue("k")) + (sv.index() == 5 ? "s " : " ");
    }
    o += "] tok{";
    for (auto &t : toks) o += t.name + ",";
    o += vf::sfmt("} scopes=%zu", scopes.size());
    return o;
  };
  observe();
  for (int d = 0; d < depth; ++d) {
    int nt = (int)toks.size(), ns = (int)scopes.size();
    int op = c.pick("op", 3 + (nt ? 3 : 0) + (ns ? 1 : 0));
    c.step();
    rec->log.clear();
    if (op < 2) {
      c.stage("custom:Attach");
      hist += op == 0 ? " Attach(A)" : " Attach(B)";
      size_t before = rec->frames.size();
      nostd::unique_ptr<context::Token> t = RuntimeContext::Attach(*fixed[op]);
      c.check(rec->log == "A" && rec->frames.size() == before + 1 && rec->last_attached == *fixed[op], "C10:custom-storage:attach-not-delegated",
              vf::sfmt("after%s: RuntimeContext::Attach made the calls '%s' on the installed storage (expected one Attach with the given context)", hist.c_str(), rec->log.c_str()));
      c.check(t.get() == rec->last_created, "C10:custom-storage:attach-not-delegated", vf::sfmt("after%s: RuntimeContext::Attach did not return the token the installed storage created", hist.c_str()));
      toks.push_back({std::move(t), op == 0 ? "A" : "B"});
    } else if (op == 2) {
      c.stage("custom:Scope");
      hist += " Scope+";
      Context parent = rec->peek();
      size_t before = rec->frames.size();
      Scp s;
      s.owner = make_span(nspans++);
      s.span = s.owner.get();
      s.scope.reset(new trace::Scope(s.owner));
      size_t attaches = (size_t)std::count(rec->log.begin(), rec->log.end(), 'A');
      c.check(attaches == 1 && rec->frames.size() == before + 1 && rec->log.find('D') == std::string::npos, "C10:custom-storage:scope-not-delegated",
              vf::sfmt("after%s: constructing a Scope made the calls '%s' on the installed storage (expected one Attach)", hist.c_str(), rec->log.c_str()));
      ContextValue sv = rec->last_attached.GetValue(trace::kSpanKey);
      c.check(sv.index() == 5 && nostd::get<nostd::shared_ptr<trace::Span>>(sv).get() == s.span && show(rec->last_attached.GetValue("k")) == show(parent.GetValue("k")), "C10:custom-storage:scope-context",
              vf::sfmt("after%s: the context a Scope attached to the installed storage does not bind the span on top of the storage's current context", hist.c_str()));
      s.token = s.scope->token_.get();
      c.check(s.token == rec->last_created, "C10:custom-storage:scope-not-delegated", vf::sfmt("after%s: the Scope does not hold the token the installed storage created", hist.c_str()));
      scopes.push_back(std::move(s));
    } else if (nt && op < 6) {
      size_t j = op == 3 ? toks.size() - 1 : 0;  // 3: Detach(newest token), token kept; 4: ~Token(oldest); 5: ~Token(newest)
      if (op == 3) {
        c.stage("custom:Detach");
        hist += " Detach(newest token)";
        bool got = RuntimeContext::Detach(*toks[j].tok);
        c.check(rec->log == "D" && rec->last_detached == toks[j].tok.get(), "C10:custom-storage:detach-not-delegated",
                vf::sfmt("after%s: RuntimeContext::Detach made the calls '%s' on the installed storage (expected one Detach with the given token)", hist.c_str(), rec->log.c_str()));
        c.check(got == rec->last_detach_result, "C10:custom-storage:detach-result", vf::sfmt("after%s: RuntimeContext::Detach returned %d, the installed storage returned %d", hist.c_str(), int(got), int(rec->last_detach_result)));
      } else {
        if (op == 5) j = toks.size() - 1;
        c.stage("custom:~Token");
        hist += op == 4 ? " ~Token(oldest)" : " ~Token(newest)";
        context::Token *addr = toks[j].tok.get();
        toks.erase(toks.begin() + (long)j);
        c.check(rec->log == "D" && rec->last_detached == addr, "C10:custom-storage:token-destructor-not-delegated",
                vf::sfmt("after%s: destroying a token made the calls '%s' on the installed storage (expected one Detach with that token)", hist.c_str(), rec->log.c_str()));
      }
    } else {
      c.stage("custom:~Scope");
      hist += " Scope-(oldest)";
      context::Token *addr = scopes[0].token;
      scopes.erase(scopes.begin());
      c.check(rec->log == "D" && rec->last_detached == addr, "C10:custom-storage:scope-destructor-not-delegated",
              vf::sfmt("after%s: destroying a Scope made the calls '%s' on the installed storage (expected one Detach with the Scope's token)", hist.c_str(), rec->log.c_str()));
    }
    observe();
    c.state(vf::sfmt("cst|%d|", depth - d - 1) + canon());
  }
  std::string fin = canon();
  c.stage("custom:unwind");
  scopes.clear();
  toks.clear();
  c.check(real_stack().size_ == 0, "C10:custom-storage:default-stack-used", "frames on the default thread-local stack after a run on a custom storage");
  // back to the default storage: it works as before (one attach / detach)
  c.stage("custom:restore");
  RuntimeContext::SetRuntimeContextStorage(default_storage());
  rec->log.clear();
  {
    nostd::unique_ptr<context::Token> t = RuntimeContext::Attach(A);
    c.check(RuntimeContext::GetCurrent() == A && real_stack().size_ == 1 && rec->log.empty(), "C10:custom-storage:restore-default", "after re-installing the default storage an Attach did not reach the thread-local stack");
  }
  c.check(RuntimeContext::GetCurrent() == Context() && real_stack().size_ == 0 && rec->log.empty(), "C10:custom-storage:restore-default", "after re-installing the default storage the token's destruction did not pop the thread-local stack");
  c.outcome("cst|" + fin);
  c.sample("custom storage (not a stack):" + hist + " => " + fin + "; every call reached the installed storage, the default stack stayed empty");
}

void setup(vf::Options &o) {
  o.split_depth = 3;
  o.deadline_s = o.thorough ? 900 : 100;
  o.table_bits = o.thorough ? 25 : 22;
}

void run(vf::Ctx &c) {
  // --part=N (development aid) runs a single part; registered tiers enumerate all four
  const std::string only = c.opt().get("part");
  // an execution that ended inside part 5 has already re-installed the default storage (RestoreDefaultStorage)
  default_storage();
  switch (only.empty() ? c.pick("part", 6) : atoi(only.c_str())) {
    case 0: run_family(c); break;
    case 1: run_stack(c); break;
    case 2: run_threads(c); break;
    case 3: run_deep(c); break;
    case 4: run_special(c); break;
    default: run_custom_storage(c); break;
  }
}

}  // namespace

VF_MAIN("c10_context", "C10", setup, run)
