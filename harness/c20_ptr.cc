// C20 (ownership part): nostd::unique_ptr / nostd::shared_ptr against std::unique_ptr /
// std::shared_ptr (Engine B, lock-step differential).
//
// Two "worlds" with the same shape - one built from the std smart pointers (the reference), one from
// the nostd ones (the code under test) - are driven by the same operation sequence.  Pointees are
// instance counted per world.  After every operation: same null-ness / pointee identity / comparison
// results for every handle, same set of objects destroyed by that operation, nothing destroyed twice,
// AddressSanitizer silent.  Every execution runs in its own forked child (fork_per_exec) so that the
// pointee destructor can end the execution at the exact point where the real code destroys an object
// that the reference keeps alive - before any undefined behaviour is executed.
#include <algorithm>
#include <memory>
#include <set>
#include <string>
#include <vector>

#include <fcntl.h>
#include <unistd.h>

#include <opentelemetry/nostd/shared_ptr.h>
#include <opentelemetry/nostd/unique_ptr.h>

#include "seq/vf_seq.h"

namespace nostd = opentelemetry::nostd;

// AddressSanitizer reports of the exploration are never shown (stderr is silenced around the operations, the report
// is what `bin/check --replay` prints), but symbolizing one costs seconds of wall time on a loaded machine and can
// push a crashing child over the per-execution alarm. Symbolization is therefore switched off unless the process
// was started with --replay.  Called by the ASan runtime before main(): raw system calls and plain loops only.
#include <sys/syscall.h>
extern "C" __attribute__((no_sanitize_address, no_sanitize("undefined"))) const char *__asan_default_options() {
  static char buf[4096];
  long fd = syscall(SYS_open, "/proc/self/cmdline", 0 /* O_RDONLY */, 0);
  if (fd < 0) return "";
  long n = syscall(SYS_read, fd, buf, sizeof buf - 1);
  syscall(SYS_close, fd);
  const char needle[] = "--replay";
  for (long i = 0; n > 0 && i + (long)sizeof needle - 1 <= n; ++i) {
    bool hit = true;
    for (size_t k = 0; k + 1 < sizeof needle; ++k)
      if (buf[i + (long)k] != needle[k]) { hit = false; break; }
    if (hit) return "";
  }
  return "symbolize=0";
}

namespace {

vf::Ctx *g_c = nullptr;

// ---- instance accounting -------------------------------------------------------------------------
struct Ledger {
  int live = 0;
  std::vector<int> dtor;      // destructions per object id
  std::vector<int> died_now;  // ids destroyed by the operation in progress
  void reset() { live = 0; dtor.clear(); died_now.clear(); }
};
Ledger g_led[2];                          // [0] std world (reference), [1] nostd world (real code)
const std::set<int> *g_expect = nullptr;  // ids the reference destroyed in the operation in progress
std::string g_kind, g_opname, g_opclass;   // "shared_ptr" / "unique_ptr", exact name and signature class of the operation in progress
int g_next_id = 0;
const std::string *g_hist = nullptr;      // the history so far (for messages produced inside a destructor)

void on_create(int side, int id) {
  Ledger &l = g_led[side];
  if ((int)l.dtor.size() <= id) l.dtor.resize(id + 1, 0);
  l.live++;
}
void on_destroy(int side, int id) {
  Ledger &l = g_led[side];
  l.live--;
  l.dtor[id]++;
  l.died_now.push_back(id);
  if (side == 1 && l.dtor[id] > 1)
    g_c->exit_fail("C20:" + g_kind + ":destroyed-twice:" + g_opclass, vf::sfmt("after%s: object #%d was destroyed a second time by nostd::%s %s", g_hist ? g_hist->c_str() : "", id, g_kind.c_str(), g_opname.c_str()));
  if (side == 1 && g_expect && !g_expect->count(id))
    g_c->exit_fail("C20:" + g_kind + ":premature-destroy:" + g_opclass,
                   vf::sfmt("after%s: nostd::%s %s destroyed the managed object #%d; the same operation on std::%s keeps it alive", g_hist ? g_hist->c_str() : "", g_kind.c_str(),
                            g_opname.c_str(), id, g_kind.c_str()));
}

struct StdFam {
  static constexpr int side = 0;
  template <class T> using sp = std::shared_ptr<T>;
  template <class T> using up = std::unique_ptr<T>;
};
struct NoFam {
  static constexpr int side = 1;
  template <class T> using sp = nostd::shared_ptr<T>;
  template <class T> using up = nostd::unique_ptr<T>;
};

// use_count of the hidden std::shared_ptr (real object state for the canonical string)
template <class T> long use_count(const std::shared_ptr<T> &p) { return p.use_count(); }
template <class T> long use_count(const nostd::shared_ptr<T> &p) { return p.wrapper().ptr_.use_count(); }

// A handle with explicit lifetime on the heap (exact-size block: over-reads of the handle are ASan reports).
// rebuild(): the new handle is constructed first, then the old one is destroyed.
template <class H> struct Slot {
  H *p;
  Slot() : p(new H()) {}
  ~Slot() { delete p; }
  Slot(const Slot &) = delete;
  template <class... A> void rebuild(A &&...a) {
    H *q = new H(std::forward<A>(a)...);
    delete p;
    p = q;
  }
  H &operator*() { return *p; }
  H *operator->() { return p; }
};

struct Op {
  int code, i, j;
  const char *name;  // exact operation (messages, traces, samples)
  const char *cls;   // signature class: the name, except that every assignment whose source is the target itself or is
                     // owned by the target's pointee (p = p, p = std::move(p), h = h->next, h->next = h->next->next, ...)
                     // is one class: what distinguishes those failures is the aliasing, not the spelling
};
const char *const kAliased = "assign-aliased";

// First polymorphic base of the derived test types: the Node subobject of a Derived sits behind it, so every
// Derived* -> Node* conversion (converting constructors / assignments of the smart pointers, comparisons between a
// base and a derived handle, deletion through the base handle) has to ADJUST the pointer.  A conversion that merely
// reinterprets the bits yields a pointer to the Pad subobject: wrong id / dynamic type / vtable.
struct Pad {
  long pad = 0x5a5a5a5a;
  virtual ~Pad() {}
  virtual long padding() const { return pad; }
};

// ==================================================================================================
// shared_ptr world
// ==================================================================================================
template <class Fam> struct SNode {
  int id;
  typename Fam::template sp<SNode> next;
  explicit SNode(int i) : id(i) { on_create(Fam::side, id); }
  virtual ~SNode() { on_destroy(Fam::side, id); }
  virtual int kind() const { return 0; }
  SNode(const SNode &) = delete;
};
template <class Fam> struct SDerived : Pad, SNode<Fam> {
  int extra = 77;
  explicit SDerived(int i) : SNode<Fam>(i) {}
  int kind() const override { return 1; }
};

enum SCode {
  S_CTOR_DEFAULT, S_CTOR_RAW, S_CTOR_RAW_DERIVED, S_ASSIGN_NULL, S_CTOR_COPY, S_CTOR_MOVE, S_ASSIGN_COPY, S_ASSIGN_MOVE, S_SWAP,
  S_LINK_COPY, S_LINK_NULL, S_ASSIGN_COPY_OWN_NEXT, S_ASSIGN_MOVE_OWN_NEXT, S_ASSIGN_COPY_OTHER_NEXT, S_CTOR_COPY_OWN_NEXT, S_POP_NEXT,
  S_X_FRESH, S_X_RESET, S_CTOR_FROM_STD_COPY, S_CTOR_FROM_STD_MOVE, S_ASSIGN_FROM_STD, S_CTOR_FROM_UNIQUE, S_CTOR_FROM_STD_UNIQUE,
  S_CTOR_FROM_NULL_UNIQUE, S_D_RAW, S_D_NULL, S_CTOR_CONV_MOVE, S_ASSIGN_CONV_MOVE,
  // (appended: the indices of the operations above are part of archived replay files)
  S_C_CTOR_CONV_MOVE, S_C_ASSIGN_CONV_MOVE, S_C_CTOR_CONV_MOVE_DERIVED, S_C_NULL
};

const std::vector<Op> &shared_ops() {
  static std::vector<Op> ops;
  if (!ops.empty()) return ops;
  auto each_i = [&](int code, const char *name) { for (int i = 0; i < 2; ++i) ops.push_back({code, i, -1, name}); };
  auto each_ij = [&](int code, const char *name, const char *self) {
    for (int i = 0; i < 2; ++i)
      for (int j = 0; j < 2; ++j) {
        if (i == j && !self) continue;
        ops.push_back({code, i, j, i == j ? self : name});
      }
  };
  each_i(S_CTOR_DEFAULT, "ctor-default");
  each_i(S_CTOR_RAW, "ctor-raw");
  each_i(S_CTOR_RAW_DERIVED, "ctor-raw-derived");
  each_i(S_ASSIGN_NULL, "assign-nullptr");
  each_ij(S_CTOR_COPY, "ctor-copy", nullptr);
  each_ij(S_CTOR_MOVE, "ctor-move", nullptr);
  each_ij(S_ASSIGN_COPY, "assign-copy", "assign-copy-self");
  each_ij(S_ASSIGN_MOVE, "assign-move", "assign-move-self");
  ops.push_back({S_SWAP, 0, 1, "swap"});
  ops.push_back({S_SWAP, 0, 0, "swap-self"});
  ops.push_back({S_SWAP, 1, 1, "swap-self"});
  each_ij(S_LINK_COPY, "member-assign-copy", "member-assign-copy-owner");
  each_i(S_LINK_NULL, "member-assign-nullptr");
  each_i(S_ASSIGN_COPY_OWN_NEXT, "assign-copy-own-next");
  each_i(S_ASSIGN_MOVE_OWN_NEXT, "assign-move-own-next");
  each_ij(S_ASSIGN_COPY_OTHER_NEXT, "assign-copy-other-next", nullptr);
  each_i(S_CTOR_COPY_OWN_NEXT, "ctor-copy-own-next");
  each_i(S_POP_NEXT, "member-assign-copy-own-next");
  ops.push_back({S_X_FRESH, -1, -1, "std-handle-fresh"});
  ops.push_back({S_X_RESET, -1, -1, "std-handle-reset"});
  each_i(S_CTOR_FROM_STD_COPY, "ctor-from-std-shared-copy");
  each_i(S_CTOR_FROM_STD_MOVE, "ctor-from-std-shared-move");
  each_i(S_ASSIGN_FROM_STD, "assign-from-std-shared");
  each_i(S_CTOR_FROM_UNIQUE, "ctor-from-unique");
  each_i(S_CTOR_FROM_STD_UNIQUE, "ctor-from-std-unique");
  each_i(S_CTOR_FROM_NULL_UNIQUE, "ctor-from-null-unique");
  ops.push_back({S_D_RAW, -1, -1, "derived-ctor-raw"});
  ops.push_back({S_D_NULL, -1, -1, "derived-assign-nullptr"});
  each_i(S_CTOR_CONV_MOVE, "ctor-converting-move");
  each_i(S_ASSIGN_CONV_MOVE, "assign-converting-move");
  // shared_ptr<T> -> shared_ptr<const T> (and Derived -> const Base): the only cv conversion nostd offers is the converting move
  each_i(S_C_CTOR_CONV_MOVE, "const-ctor-converting-move");
  each_i(S_C_ASSIGN_CONV_MOVE, "const-assign-converting-move");
  ops.push_back({S_C_CTOR_CONV_MOVE_DERIVED, -1, -1, "const-ctor-converting-move-derived"});
  ops.push_back({S_C_NULL, -1, -1, "const-assign-nullptr"});
  for (auto &o : ops) {
    bool aliased = ((o.code == S_ASSIGN_COPY || o.code == S_ASSIGN_MOVE) && o.i == o.j) || o.code == S_ASSIGN_COPY_OWN_NEXT || o.code == S_ASSIGN_MOVE_OWN_NEXT || o.code == S_POP_NEXT;
    o.cls = aliased ? kAliased : o.name;
  }
  return ops;
}

template <class Fam> struct SWorld {
  using N = SNode<Fam>;
  using D = SDerived<Fam>;
  using SP = typename Fam::template sp<N>;
  using SD = typename Fam::template sp<D>;
  using SC = typename Fam::template sp<const N>;
  Slot<SP> b[2];
  Slot<SD> d;
  Slot<SC> c;            // handle to const: filled by converting moves only
  std::shared_ptr<N> x;  // a std::shared_ptr that shares ownership with the handles under test

  bool enabled(const Op &o) const {
    switch (o.code) {
      case S_LINK_COPY: case S_LINK_NULL: case S_ASSIGN_COPY_OWN_NEXT: case S_ASSIGN_MOVE_OWN_NEXT: case S_CTOR_COPY_OWN_NEXT:
        return bool(*b[o.i].p);
      case S_ASSIGN_COPY_OTHER_NEXT: return bool(*b[o.j].p);
      case S_POP_NEXT: return bool(*b[o.i].p) && bool((*b[o.i].p)->next);
      default: return true;
    }
  }

  void apply(const Op &o, int fresh) {
    SP &t = *b[o.i < 0 ? 0 : o.i];
    switch (o.code) {
      case S_CTOR_DEFAULT: b[o.i].rebuild(); break;
      case S_CTOR_RAW: b[o.i].rebuild(new N(fresh)); break;
      case S_CTOR_RAW_DERIVED: b[o.i].rebuild(static_cast<N *>(new D(fresh))); break;
      case S_ASSIGN_NULL: t = nullptr; break;
      case S_CTOR_COPY: b[o.i].rebuild(*b[o.j]); break;
      case S_CTOR_MOVE: b[o.i].rebuild(std::move(*b[o.j])); break;
      case S_ASSIGN_COPY: { const SP &src = *b[o.j]; t = src; break; }
      case S_ASSIGN_MOVE: t = std::move(*b[o.j]); break;
      case S_SWAP: t.swap(*b[o.j]); break;
      case S_LINK_COPY: t->next = *b[o.j]; break;
      case S_LINK_NULL: t->next = nullptr; break;
      case S_ASSIGN_COPY_OWN_NEXT: t = t->next; break;
      case S_ASSIGN_MOVE_OWN_NEXT: t = std::move(t->next); break;
      case S_ASSIGN_COPY_OTHER_NEXT: t = (*b[o.j])->next; break;
      case S_CTOR_COPY_OWN_NEXT: b[o.i].rebuild(t->next); break;
      case S_POP_NEXT: t->next = t->next->next; break;
      case S_X_FRESH: x = std::shared_ptr<N>(new N(fresh)); break;
      case S_X_RESET: x.reset(); break;
      case S_CTOR_FROM_STD_COPY: b[o.i].rebuild(x); break;              // nostd: shared_ptr(std::shared_ptr<T>)
      case S_CTOR_FROM_STD_MOVE: b[o.i].rebuild(std::move(x)); x.reset(); break;
      case S_ASSIGN_FROM_STD: t = x; break;                             // nostd: implicit conversion, then move assignment
      case S_CTOR_FROM_UNIQUE: { typename Fam::template up<N> u(new N(fresh)); b[o.i].rebuild(std::move(u)); break; }
      case S_CTOR_FROM_STD_UNIQUE: { std::unique_ptr<N> u(new N(fresh)); b[o.i].rebuild(std::move(u)); break; }
      case S_CTOR_FROM_NULL_UNIQUE: { typename Fam::template up<N> u; b[o.i].rebuild(std::move(u)); break; }
      case S_D_RAW: d.rebuild(new D(fresh)); break;
      case S_D_NULL: *d = nullptr; break;
      case S_CTOR_CONV_MOVE: b[o.i].rebuild(std::move(*d)); break;
      case S_ASSIGN_CONV_MOVE: t = std::move(*d); break;
      case S_C_CTOR_CONV_MOVE: c.rebuild(std::move(*b[o.i])); break;   // nostd: shared_ptr<const N>(shared_ptr<N>&&)
      case S_C_ASSIGN_CONV_MOVE: *c = std::move(*b[o.i]); break;       // nostd: converting constructor, then move assignment
      case S_C_CTOR_CONV_MOVE_DERIVED: c.rebuild(std::move(*d)); break;  // Derived -> const Node: pointer adjustment and cv
      case S_C_NULL: *c = nullptr; break;
    }
  }

  template <class P> static std::string chain(const P &h) {
    // everything observable through the handle API: bool, get, ->, *, and the chain of next links
    std::string o = bool(h) ? "T" : "F";
    o += h.get() == nullptr ? "0" : "1";
    o += (h == nullptr) ? "e" : "n";
    o += (nullptr == h) ? "e" : "n";
    o += (h != nullptr) ? "n" : "e";
    o += (nullptr != h) ? "n" : "e";
    if (!h) return o;
    o += vf::sfmt("#%d/%d/%d/k%d", h->id, (*h).id, h.get()->id, h->kind());
    if (h->kind() == 1) {  // the complete Derived object seen from this handle: members behind and in front of the Node subobject
      const D *whole = static_cast<const D *>(h.get());
      o += vf::sfmt("[x%d,p%lx]", whole->extra, (unsigned long)whole->padding());
    }
    const N *n = h.get();
    for (int hop = 0; hop < 6 && n->next; ++hop) {
      n = n->next.get();
      o += vf::sfmt(">%d", n->id);
    }
    return o;
  }
  std::string observe() {
    std::string o = "b0=" + chain(*b[0]) + " b1=" + chain(*b[1]) + " d=" + chain(*d) + " c=" + chain(*c);
    o += vf::sfmt(" x=%d", x ? x->id : -1);
    o += vf::sfmt(" cmp=%d%d%d%d%d%d", int(*b[0] == *b[1]), int(*b[0] != *b[1]), int(*b[0] == *d), int(*d != *b[1]), int(*b[0] == *b[0]), int(*d == *d));
    o += vf::sfmt("%d%d%d%d", int(*c == *b[0]), int(*b[1] != *c), int(*c == *d), int(*c == *c));
    if (*d) o += vf::sfmt(" extra=%d", (*d)->extra);
    return o;
  }
  // canonical state of the real world: object ids renamed in order of first appearance, every reachable
  // pointer with the use count of the hidden control block
  std::string canon() {
    std::vector<int> names;
    auto label = [&](int id) { for (size_t k = 0; k < names.size(); ++k) if (names[k] == id) return (int)k; names.push_back(id); return (int)names.size() - 1; };
    std::string o;
    std::vector<const N *> todo;
    auto visit = [&](const N *n, long uc) {
      if (!n) { o += vf::sfmt("-/%ld ", uc); return; }
      size_t before = names.size();
      int l = label(n->id);
      o += vf::sfmt("%d%s/%ld ", l, n->kind() ? "D" : "", uc);
      if (names.size() > before) todo.push_back(n);
    };
    visit(b[0]->get(), use_count(*b[0]));
    visit(b[1]->get(), use_count(*b[1]));
    visit(d->get(), use_count(*d));
    visit(c->get(), use_count(*c));
    visit(x.get(), x.use_count());
    for (size_t k = 0; k < todo.size(); ++k) {
      o += "|";
      visit(todo[k]->next.get(), use_count(todo[k]->next));
    }
    return o;
  }
  void teardown() { b[0].rebuild(); b[1].rebuild(); d.rebuild(); c.rebuild(); x.reset(); }
};

// ==================================================================================================
// unique_ptr world
// ==================================================================================================
template <class Fam> struct UNode {
  int id;
  typename Fam::template up<UNode> next;
  explicit UNode(int i) : id(i) { on_create(Fam::side, id); }
  virtual ~UNode() { on_destroy(Fam::side, id); }
  virtual int kind() const { return 0; }
  UNode(const UNode &) = delete;
};
template <class Fam> struct UDerived : Pad, UNode<Fam> {
  int extra = 55;
  explicit UDerived(int i) : UNode<Fam>(i) {}
  int kind() const override { return 1; }
};
template <class Fam> struct UElem {  // element of the array form
  int id;
  UElem() : id(g_next_id++) { on_create(Fam::side, id); }
  ~UElem() { on_destroy(Fam::side, id); }
};

enum UCode {
  U_CTOR_DEFAULT, U_CTOR_NULLPTR, U_CTOR_RAW, U_ASSIGN_NULL, U_RESET, U_RESET_FRESH, U_CTOR_MOVE, U_ASSIGN_MOVE, U_SWAP, U_RELEASE, U_CTOR_FROM_RELEASED,
  U_RESET_FROM_RELEASED, U_DELETE_RELEASED, U_LINK_MOVE, U_LINK_NULL, U_ASSIGN_MOVE_OWN_NEXT, U_ASSIGN_MOVE_OTHER_NEXT, U_CTOR_MOVE_OWN_NEXT, U_POP_NEXT,
  U_X_FRESH, U_X_RESET, U_CTOR_FROM_STD, U_ASSIGN_FROM_STD, U_TO_STD, U_D_RAW, U_D_NULL, U_CTOR_CONV_MOVE, U_ASSIGN_CONV_MOVE, U_ARRAY_FRESH, U_ARRAY_NULL, U_ARRAY_MOVE,
  // (appended: the indices of the operations above are part of archived replay files)
  U_XD_FRESH, U_CTOR_FROM_STD_DERIVED, U_ASSIGN_FROM_STD_DERIVED, U_D_TO_STD_BASE
};

const std::vector<Op> &unique_ops() {
  static std::vector<Op> ops;
  if (!ops.empty()) return ops;
  auto each_i = [&](int code, const char *name) { for (int i = 0; i < 2; ++i) ops.push_back({code, i, -1, name}); };
  auto each_ij = [&](int code, const char *name, const char *self) {
    for (int i = 0; i < 2; ++i)
      for (int j = 0; j < 2; ++j) {
        if (i == j && !self) continue;
        ops.push_back({code, i, j, i == j ? self : name});
      }
  };
  each_i(U_CTOR_DEFAULT, "ctor-default");
  each_i(U_CTOR_NULLPTR, "ctor-nullptr");
  each_i(U_CTOR_RAW, "ctor-raw");
  each_i(U_ASSIGN_NULL, "assign-nullptr");
  each_i(U_RESET, "reset");
  each_i(U_RESET_FRESH, "reset-raw");
  each_ij(U_CTOR_MOVE, "ctor-move", nullptr);
  each_ij(U_ASSIGN_MOVE, "assign-move", "assign-move-self");
  ops.push_back({U_SWAP, 0, 1, "swap"});
  ops.push_back({U_SWAP, 0, 0, "swap-self"});
  ops.push_back({U_SWAP, 1, 1, "swap-self"});
  each_i(U_RELEASE, "release");
  each_i(U_CTOR_FROM_RELEASED, "ctor-raw-released");
  each_i(U_RESET_FROM_RELEASED, "reset-raw-released");
  ops.push_back({U_DELETE_RELEASED, -1, -1, "delete-released"});
  each_ij(U_LINK_MOVE, "member-assign-move", "member-assign-move-owner");
  each_i(U_LINK_NULL, "member-assign-nullptr");
  each_i(U_ASSIGN_MOVE_OWN_NEXT, "assign-move-own-next");
  each_ij(U_ASSIGN_MOVE_OTHER_NEXT, "assign-move-other-next", nullptr);
  each_i(U_CTOR_MOVE_OWN_NEXT, "ctor-move-own-next");
  each_i(U_POP_NEXT, "member-assign-move-own-next");
  ops.push_back({U_X_FRESH, -1, -1, "std-handle-fresh"});
  ops.push_back({U_X_RESET, -1, -1, "std-handle-reset"});
  each_i(U_CTOR_FROM_STD, "ctor-from-std-unique");
  each_i(U_ASSIGN_FROM_STD, "assign-from-std-unique");
  each_i(U_TO_STD, "convert-to-std-unique");
  ops.push_back({U_D_RAW, -1, -1, "derived-ctor-raw"});
  ops.push_back({U_D_NULL, -1, -1, "derived-assign-nullptr"});
  each_i(U_CTOR_CONV_MOVE, "ctor-converting-move");
  each_i(U_ASSIGN_CONV_MOVE, "assign-converting-move");
  ops.push_back({U_ARRAY_FRESH, -1, -1, "array-reset-raw"});
  ops.push_back({U_ARRAY_NULL, -1, -1, "array-assign-nullptr"});
  ops.push_back({U_ARRAY_MOVE, -1, -1, "array-assign-move"});
  // conversions between nostd::unique_ptr and std::unique_ptr that cross the Derived -> Node boundary
  ops.push_back({U_XD_FRESH, -1, -1, "std-derived-handle-fresh"});
  each_i(U_CTOR_FROM_STD_DERIVED, "ctor-from-std-unique-derived");
  each_i(U_ASSIGN_FROM_STD_DERIVED, "assign-from-std-unique-derived");
  ops.push_back({U_D_TO_STD_BASE, -1, -1, "convert-derived-to-std-unique-base"});
  for (auto &o : ops) {
    bool aliased = ((o.code == U_ASSIGN_MOVE || o.code == U_LINK_MOVE) && o.i == o.j) || o.code == U_ASSIGN_MOVE_OWN_NEXT || o.code == U_POP_NEXT;
    o.cls = aliased ? kAliased : o.name;
  }
  return ops;
}

template <class Fam> struct UWorld {
  using N = UNode<Fam>;
  using D = UDerived<Fam>;
  using E = UElem<Fam>;
  using UP = typename Fam::template up<N>;
  using UD = typename Fam::template up<D>;
  using UA = typename Fam::template up<E[]>;
  Slot<UP> u[2];
  Slot<UD> d;
  Slot<UA> a[2];
  std::unique_ptr<N> x;   // a std::unique_ptr exchanging ownership with the handles under test
  std::unique_ptr<D> xd;  // a std::unique_ptr<Derived>: source of converting constructions / assignments from std
  N *released = nullptr;  // raw pointer obtained from release(), owned by the harness

  bool enabled(const Op &o) const {
    switch (o.code) {
      case U_RELEASE: return released == nullptr;
      case U_CTOR_FROM_RELEASED: case U_RESET_FROM_RELEASED: case U_DELETE_RELEASED: return released != nullptr;
      case U_LINK_MOVE: case U_LINK_NULL: case U_ASSIGN_MOVE_OWN_NEXT: case U_CTOR_MOVE_OWN_NEXT: return bool(*u[o.i].p);
      case U_ASSIGN_MOVE_OTHER_NEXT: return bool(*u[o.j].p);
      case U_POP_NEXT: return bool(*u[o.i].p) && bool((*u[o.i].p)->next);
      default: return true;
    }
  }

  void apply(const Op &o, int fresh) {
    UP &t = *u[o.i < 0 ? 0 : o.i];
    switch (o.code) {
      case U_CTOR_DEFAULT: u[o.i].rebuild(); break;
      case U_CTOR_NULLPTR: u[o.i].rebuild(nullptr); break;
      case U_CTOR_RAW: u[o.i].rebuild(new N(fresh)); break;
      case U_ASSIGN_NULL: t = nullptr; break;
      case U_RESET: t.reset(); break;
      case U_RESET_FRESH: t.reset(new N(fresh)); break;
      case U_CTOR_MOVE: u[o.i].rebuild(std::move(*u[o.j])); break;
      case U_ASSIGN_MOVE: t = std::move(*u[o.j]); break;
      case U_SWAP: t.swap(*u[o.j]); break;
      case U_RELEASE: released = t.release(); break;
      case U_CTOR_FROM_RELEASED: u[o.i].rebuild(released); released = nullptr; break;
      case U_RESET_FROM_RELEASED: t.reset(released); released = nullptr; break;
      case U_DELETE_RELEASED: delete released; released = nullptr; break;
      case U_LINK_MOVE: t->next = std::move(*u[o.j]); break;
      case U_LINK_NULL: t->next = nullptr; break;
      case U_ASSIGN_MOVE_OWN_NEXT: t = std::move(t->next); break;
      case U_ASSIGN_MOVE_OTHER_NEXT: t = std::move((*u[o.j])->next); break;
      case U_CTOR_MOVE_OWN_NEXT: u[o.i].rebuild(std::move(t->next)); break;
      case U_POP_NEXT: t->next = std::move(t->next->next); break;
      case U_X_FRESH: x.reset(new N(fresh)); break;
      case U_X_RESET: x.reset(); break;
      case U_CTOR_FROM_STD: u[o.i].rebuild(std::move(x)); break;  // nostd: unique_ptr(std::unique_ptr<U>&&)
      case U_ASSIGN_FROM_STD: t = std::move(x); break;           // nostd: operator=(std::unique_ptr<U>&&)
      case U_TO_STD: x = std::move(t); break;                    // nostd: operator std::unique_ptr<T>() &&
      case U_D_RAW: d.rebuild(new D(fresh)); break;
      case U_D_NULL: *d = nullptr; break;
      case U_CTOR_CONV_MOVE: u[o.i].rebuild(std::move(*d)); break;
      case U_ASSIGN_CONV_MOVE: t = std::move(*d); break;
      case U_ARRAY_FRESH: a[0]->reset(new E[2]); break;
      case U_ARRAY_NULL: *a[0] = nullptr; break;
      case U_ARRAY_MOVE: *a[1] = std::move(*a[0]); break;
      case U_XD_FRESH: xd.reset(new D(fresh)); break;
      case U_CTOR_FROM_STD_DERIVED: u[o.i].rebuild(std::move(xd)); break;  // nostd: unique_ptr<N>(std::unique_ptr<D>&&)
      case U_ASSIGN_FROM_STD_DERIVED: t = std::move(xd); break;            // nostd: operator=(std::unique_ptr<D>&&)
      case U_D_TO_STD_BASE: x = std::unique_ptr<D>(std::move(*d)); break;  // nostd: operator std::unique_ptr<D>() &&, then std's Derived -> Node
    }
  }

  template <class P> static std::string chain(const P &h) {
    std::string o = bool(h) ? "T" : "F";
    o += h.get() == nullptr ? "0" : "1";
    o += (h == nullptr) ? "e" : "n";
    o += (nullptr == h) ? "e" : "n";
    o += (h != nullptr) ? "n" : "e";
    o += (nullptr != h) ? "n" : "e";
    if (!h) return o;
    o += vf::sfmt("#%d/%d/%d/k%d", h->id, (*h).id, h.get()->id, h->kind());
    if (h->kind() == 1) {  // the complete Derived object seen from this handle: members behind and in front of the Node subobject
      const D *whole = static_cast<const D *>(h.get());
      o += vf::sfmt("[x%d,p%lx]", whole->extra, (unsigned long)whole->padding());
    }
    const N *n = h.get();
    for (int hop = 0; hop < 6 && n->next; ++hop) {
      n = n->next.get();
      o += vf::sfmt(">%d", n->id);
    }
    return o;
  }
  std::string observe() {
    std::string o = "u0=" + chain(*u[0]) + " u1=" + chain(*u[1]) + " d=" + chain(*d);
    o += vf::sfmt(" x=%d/k%d rel=%d xd=%d", x ? x->id : -1, x ? x->kind() : -1, released ? released->id : -1, xd ? xd->id : -1);
    o += vf::sfmt(" cmp=%d%d%d%d%d%d", int(*u[0] == *u[1]), int(*u[0] != *u[1]), int(*u[0] == *d), int(*d != *u[1]), int(*u[0] == *u[0]), int(*d == *d));
    if (*d) o += vf::sfmt(" extra=%d", (*d)->extra);
    for (int k = 0; k < 2; ++k) o += vf::sfmt(" a%d=%d%d", k, int(bool(*a[k])), *a[k] ? int((*a[k]).get()[1].id - (*a[k]).get()[0].id) : 0);
    return o;
  }
  std::string canon() {
    std::vector<int> names;
    auto label = [&](int id) { for (size_t k = 0; k < names.size(); ++k) if (names[k] == id) return (int)k; names.push_back(id); return (int)names.size() - 1; };
    std::string o;
    auto walk = [&](const N *n) {
      if (!n) { o += "- "; return; }
      for (int hop = 0; n && hop < 8; ++hop) {
        size_t before = names.size();
        int l = label(n->id);
        o += vf::sfmt("%d%s>", l, n->kind() ? "D" : "");
        if (names.size() == before) break;  // a cycle (an object that owns itself)
        n = n->next.get();
      }
      o += " ";
    };
    walk(u[0]->get()); walk(u[1]->get()); walk(d->get()); walk(x.get()); walk(released); walk(xd.get());
    o += vf::sfmt("a%d%d", int(bool(*a[0])), int(bool(*a[1])));
    return o;
  }
  void teardown() { u[0].rebuild(); u[1].rebuild(); d.rebuild(); a[0].rebuild(); a[1].rebuild(); x.reset(); xd.reset(); delete released; released = nullptr; }
};

// silence stderr around an operation whose failure mode is an AddressSanitizer report (the report is
// shown by `bin/check --replay`, where tracing is on)
struct Quiet {
  int saved = -1;
  explicit Quiet(bool on) {
    if (!on) return;
    fflush(stderr);
    saved = dup(2);
    int nul = open("/dev/null", O_WRONLY);
    if (nul >= 0) { dup2(nul, 2); close(nul); }
  }
  ~Quiet() {
    if (saved < 0) return;
    fflush(stderr);
    dup2(saved, 2);
    close(saved);
  }
};

// A failed oracle ends the execution at once (no unwinding through a world that may be corrupted).
void chk(vf::Ctx &c, bool ok, const std::string &sig, const std::string &msg) {
  if (!ok) c.exit_fail(sig, msg);
}

std::string ids(std::vector<int> v) {
  std::sort(v.begin(), v.end());
  std::string o = "{";
  for (size_t i = 0; i < v.size(); ++i) o += vf::sfmt("%s#%d", i ? "," : "", v[i]);
  return o + "}";
}

template <class WStd, class WNo> void drive(vf::Ctx &c, const char *kind, const std::vector<Op> &ops, int depth, uint64_t tag) {
  g_kind = kind;
  g_opname = g_opclass = "start";
  g_led[0].reset();
  g_led[1].reset();
  g_expect = nullptr;
  g_next_id = 0;
  std::string hist;
  std::string final_canon;
  g_hist = &hist;
  {
    WStd ws;
    WNo wn;
    for (int dstep = 0; dstep < depth; ++dstep) {
      {
        vf::H128 h; h.add(tag); h.add((uint64_t)(depth - dstep)); h.add_str(wn.canon());
        // complete: the future of a history depends only on which handle refers to which object, the next links of
        // the reachable objects and the use counts of the control blocks - all part of the canonical string
        c.prune_point(h);
      }
      std::vector<int> en;
      for (size_t k = 0; k < ops.size(); ++k) if (ws.enabled(ops[k])) en.push_back((int)k);
      const Op &o = ops[en[c.pick("op", (int)en.size())]];
      g_opname = o.name;
      g_opclass = o.cls;
      std::string stage = std::string(kind) + ":" + o.cls;  // a crash (ASan report) becomes C20:crash:<kind>:<class>
      c.stage(stage.c_str());
      hist += vf::sfmt(" %s(%d%s)", o.name, o.i, o.j >= 0 ? vf::sfmt(",%d", o.j).c_str() : "");
      c.trace("%s %s i=%d j=%d", kind, o.name, o.i, o.j);
      int fresh = g_next_id;
      // reference first
      g_led[0].died_now.clear();
      ws.apply(o, fresh);
      int after_ref = g_next_id > fresh ? g_next_id : fresh + 1;
      std::set<int> expect(g_led[0].died_now.begin(), g_led[0].died_now.end());
      // real code
      g_next_id = fresh;
      g_led[1].died_now.clear();
      g_expect = &expect;
      {
        Quiet q(!c.tracing());
        wn.apply(o, fresh);
      }
      g_expect = nullptr;
      g_next_id = g_next_id > after_ref ? g_next_id : after_ref;
      c.step();
      std::set<int> got(g_led[1].died_now.begin(), g_led[1].died_now.end());
      chk(c, got == expect, std::string("C20:") + kind + ":not-destroyed:" + o.cls,
              vf::sfmt("after%s: nostd::%s destroyed %s, std::%s destroyed %s", hist.c_str(), kind, ids(g_led[1].died_now).c_str(), kind, ids(g_led[0].died_now).c_str()));
      std::string os = ws.observe(), on;
      {
        Quiet q(!c.tracing());
        on = wn.observe();
      }
      chk(c, os == on, std::string("C20:") + kind + ":state-differs:" + o.cls,
              vf::sfmt("after%s: nostd world [%s] vs std world [%s]", hist.c_str(), on.c_str(), os.c_str()));
      chk(c, g_led[0].live == g_led[1].live, std::string("C20:") + kind + ":live-count:" + o.cls,
              vf::sfmt("after%s: %d live objects under nostd::%s, %d under std::%s", hist.c_str(), g_led[1].live, kind, g_led[0].live, kind));
      c.state(vf::sfmt("%s|%d|", kind, depth - dstep - 1) + wn.canon());
    }
    final_canon = wn.canon();
    // destroy every handle: the remaining objects must go exactly once on both sides
    g_opname = g_opclass = "teardown";
    c.stage((std::string(kind) + ":teardown").c_str());
    g_led[0].died_now.clear();
    ws.teardown();
    std::set<int> expect(g_led[0].died_now.begin(), g_led[0].died_now.end());
    g_led[1].died_now.clear();
    g_expect = &expect;
    wn.teardown();
    g_expect = nullptr;
    std::set<int> got(g_led[1].died_now.begin(), g_led[1].died_now.end());
    chk(c, got == expect && g_led[0].live == g_led[1].live, std::string("C20:") + kind + ":not-destroyed:teardown",
            vf::sfmt("after%s and destruction of every handle: nostd::%s destroyed %s (%d left), std::%s destroyed %s (%d left)", hist.c_str(), kind,
                     ids(g_led[1].died_now).c_str(), g_led[1].live, kind, ids(g_led[0].died_now).c_str(), g_led[0].live));
  }
  for (size_t id = 0; id < g_led[1].dtor.size(); ++id)
    chk(c, id < g_led[0].dtor.size() && g_led[1].dtor[id] <= 1 && g_led[1].dtor[id] == g_led[0].dtor[id], std::string("C20:") + kind + ":destruction-count",
            vf::sfmt("after%s: object #%zu destroyed %d times under nostd, %d times under std", hist.c_str(), id, g_led[1].dtor[id], g_led[0].dtor[id]));
  c.outcome(std::string(kind) + "|" + final_canon);
  // evidence samples: prefer histories that exercise aliasing (self / own-next / swap / member assignment)
  if (hist.find("self") != std::string::npos || hist.find("next") != std::string::npos || hist.find("member") != std::string::npos || hist.find("swap") != std::string::npos)
    c.sample(std::string(kind) + ":" + hist + " => " + final_canon);
}

// Derived* -> Node* really moves the pointer (computed on a dummy address; nothing is dereferenced)
template <class D, class N> bool conversion_adjusts() {
  D *whole = reinterpret_cast<D *>(uintptr_t(0x10000));
  N *base = whole;
  return reinterpret_cast<uintptr_t>(base) != reinterpret_cast<uintptr_t>(whole);
}

void setup(vf::Options &o) {
  if (!conversion_adjusts<SDerived<NoFam>, SNode<NoFam>>() || !conversion_adjusts<UDerived<NoFam>, UNode<NoFam>>() || !conversion_adjusts<SDerived<StdFam>, SNode<StdFam>>() ||
      !conversion_adjusts<UDerived<StdFam>, UNode<StdFam>>()) {
    fprintf(stderr, "c20_ptr: the Node subobject of the Derived test types is at offset 0; the converting operations would not adjust the pointer\n");
    exit(2);
  }
  o.fork_per_exec = true;  // the pointee destructor ends an execution with exit_fail()
  o.split_depth = 2;
  o.table_bits = o.thorough ? 24 : 22;
  o.deadline_s = o.thorough ? 900 : 100;
}

// the operations that existed before the conversion extension (a prefix of the alphabet)
const std::vector<Op> &base_ops(bool unique) {
  static std::vector<Op> s, u;
  if (s.empty()) {
    for (auto &o : shared_ops()) if (o.code < S_C_CTOR_CONV_MOVE) s.push_back(o);
    for (auto &o : unique_ops()) if (o.code < U_XD_FRESH) u.push_back(o);
  }
  return unique ? u : s;
}

void run(vf::Ctx &c) {
  g_c = &c;
  // quick: the full alphabet (65 operations per world) to depth 4.
  // thorough: the full alphabet to depth 5 AND the 59 operations without the cv / std-derived conversions to depth 7
  // (depth 7 over all 65 operations is ~500k forked executions: it does not fit the tier on a loaded machine; the added
  // operations are conversions whose effect does not depend on long histories).  --depth=N overrides both.
  int part = c.pick("part", c.thorough() ? 4 : 2);
  bool unique = (part & 1) != 0, base_only = part >= 2;
  int depth = atoi(c.opt().get("depth", !c.thorough() ? "4" : base_only ? "7" : "5").c_str());
  if (!unique) drive<SWorld<StdFam>, SWorld<NoFam>>(c, "shared_ptr", base_only ? base_ops(false) : shared_ops(), depth, base_only ? 0x15a : 0x5a);
  else drive<UWorld<StdFam>, UWorld<NoFam>>(c, "unique_ptr", base_only ? base_ops(true) : unique_ops(), depth, base_only ? 0x10b : 0x0b);
}

}  // namespace

VF_MAIN("c20_ptr", "C20", setup, run)
