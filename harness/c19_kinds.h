// C19 shared harness piece: every Meter::Create* of the API behind one index, with one measurement of 7.
// Kinds 0..11 exist in both ABI versions; the synchronous gauges (12, 13) only when the harness and the
// SDK are compiled with OPENTELEMETRY_ABI_VERSION_NO >= 2 (registry entries c19_*_abi2).
#pragma once
#include "c19_common.h"

namespace c19 {

struct Holder {
  nostd::unique_ptr<mapi::Counter<uint64_t>> c_u;
  nostd::unique_ptr<mapi::Counter<double>> c_d;
  nostd::unique_ptr<mapi::Histogram<uint64_t>> h_u;
  nostd::unique_ptr<mapi::Histogram<double>> h_d;
  nostd::unique_ptr<mapi::UpDownCounter<int64_t>> u_i;
  nostd::unique_ptr<mapi::UpDownCounter<double>> u_d;
#if OPENTELEMETRY_ABI_VERSION_NO >= 2
  nostd::unique_ptr<mapi::Gauge<int64_t>> g_i;
  nostd::unique_ptr<mapi::Gauge<double>> g_d;
#endif
  nostd::shared_ptr<mapi::ObservableInstrument> obs;
  bool null_returned = false;
};
inline void observe7(mapi::ObserverResult r, void *) {
  if (nostd::holds_alternative<nostd::shared_ptr<mapi::ObserverResultT<int64_t>>>(r)) nostd::get<nostd::shared_ptr<mapi::ObserverResultT<int64_t>>>(r)->Observe(7);
  else nostd::get<nostd::shared_ptr<mapi::ObserverResultT<double>>>(r)->Observe(7.0);
}
struct KindInfo { const char *label; sm::InstrumentType type; sm::InstrumentValueType vt; };
#if OPENTELEMETRY_ABI_VERSION_NO >= 2
constexpr int kNumKinds = 14;
#else
constexpr int kNumKinds = 12;
#endif
constexpr int kFirstGaugeKind = 12;  // == kNumKinds under ABI v1: no such kind
// the first four are one kind of each family (counter, observable, histogram, up-down counter)
const KindInfo kKinds[14] = {
    {"UInt64Counter", sm::InstrumentType::kCounter, sm::InstrumentValueType::kLong},
    {"DoubleObservableGauge", sm::InstrumentType::kObservableGauge, sm::InstrumentValueType::kDouble},
    {"DoubleHistogram", sm::InstrumentType::kHistogram, sm::InstrumentValueType::kDouble},
    {"Int64UpDownCounter", sm::InstrumentType::kUpDownCounter, sm::InstrumentValueType::kLong},
    {"Int64ObservableCounter", sm::InstrumentType::kObservableCounter, sm::InstrumentValueType::kLong},
    {"DoubleObservableUpDownCounter", sm::InstrumentType::kObservableUpDownCounter, sm::InstrumentValueType::kDouble},
    {"DoubleCounter", sm::InstrumentType::kCounter, sm::InstrumentValueType::kDouble},
    {"UInt64Histogram", sm::InstrumentType::kHistogram, sm::InstrumentValueType::kLong},
    {"DoubleUpDownCounter", sm::InstrumentType::kUpDownCounter, sm::InstrumentValueType::kDouble},
    {"DoubleObservableCounter", sm::InstrumentType::kObservableCounter, sm::InstrumentValueType::kDouble},
    {"Int64ObservableGauge", sm::InstrumentType::kObservableGauge, sm::InstrumentValueType::kLong},
    {"Int64ObservableUpDownCounter", sm::InstrumentType::kObservableUpDownCounter, sm::InstrumentValueType::kLong},
    {"Int64Gauge", sm::InstrumentType::kGauge, sm::InstrumentValueType::kLong},
    {"DoubleGauge", sm::InstrumentType::kGauge, sm::InstrumentValueType::kDouble},
};
inline bool kind_is_observable(int kind) { return kind == 1 || kind == 4 || kind == 5 || (kind >= 9 && kind <= 11); }
inline void create(int kind, mapi::Meter &m, nostd::string_view name, nostd::string_view desc, nostd::string_view unit, Holder &h) {
  switch (kind) {
    case 0: h.c_u = m.CreateUInt64Counter(name, desc, unit); h.null_returned = !h.c_u; break;
    case 1: h.obs = m.CreateDoubleObservableGauge(name, desc, unit); break;
    case 2: h.h_d = m.CreateDoubleHistogram(name, desc, unit); h.null_returned = !h.h_d; break;
    case 3: h.u_i = m.CreateInt64UpDownCounter(name, desc, unit); h.null_returned = !h.u_i; break;
    case 4: h.obs = m.CreateInt64ObservableCounter(name, desc, unit); break;
    case 5: h.obs = m.CreateDoubleObservableUpDownCounter(name, desc, unit); break;
    case 6: h.c_d = m.CreateDoubleCounter(name, desc, unit); h.null_returned = !h.c_d; break;
    case 7: h.h_u = m.CreateUInt64Histogram(name, desc, unit); h.null_returned = !h.h_u; break;
    case 8: h.u_d = m.CreateDoubleUpDownCounter(name, desc, unit); h.null_returned = !h.u_d; break;
    case 9: h.obs = m.CreateDoubleObservableCounter(name, desc, unit); break;
    case 10: h.obs = m.CreateInt64ObservableGauge(name, desc, unit); break;
    case 11: h.obs = m.CreateInt64ObservableUpDownCounter(name, desc, unit); break;
#if OPENTELEMETRY_ABI_VERSION_NO >= 2
    case 12: h.g_i = m.CreateInt64Gauge(name, desc, unit); h.null_returned = !h.g_i; break;
    case 13: h.g_d = m.CreateDoubleGauge(name, desc, unit); h.null_returned = !h.g_d; break;
#endif
    default: h.null_returned = true; break;
  }
  if (kind_is_observable(kind)) h.null_returned = !h.obs;
}
inline void measure(int kind, Holder &h) {
  ot::context::Context ctx;
  switch (kind) {
    case 0: h.c_u->Add(7); break;
    case 2: h.h_d->Record(7.0, ctx); break;
    case 3: h.u_i->Add(7); break;
    case 6: h.c_d->Add(7.0); break;
    case 7: h.h_u->Record(7, ctx); break;
    case 8: h.u_d->Add(7.0); break;
#if OPENTELEMETRY_ABI_VERSION_NO >= 2
    case 12: h.g_i->Record(7); break;
    case 13: h.g_d->Record(7.0); break;
#endif
    default: h.obs->AddCallback(observe7, nullptr); break;
  }
}
// point kind of the default aggregation of an instrument type, as c19_common.h collect() names it
inline const char *default_point_kind(sm::InstrumentType t) {
  switch (t) {
    case sm::InstrumentType::kHistogram: return "hist";
    case sm::InstrumentType::kObservableGauge: case sm::InstrumentType::kGauge: return "last";
    default: return "sum";
  }
}
// the attribute-less point of measure() as collect() prints it
inline std::string measured_points(int kind) { return kKinds[kind].type == sm::InstrumentType::kHistogram ? "{}:n1,s7;" : "{}:7;"; }

}  // namespace c19
