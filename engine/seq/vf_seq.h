// vf_seq.h - helpers for Engine-B (sequence / input-shape) harnesses.
#pragma once
#include <cstdlib>
#include <cstring>
#include <memory>
#include <string>
#include <vector>

#include <opentelemetry/nostd/string_view.h>

#include "vf_core.h"

namespace vfq {

// A byte string placed in an exact-size heap block WITHOUT a terminating NUL, so that any read past
// size() is an AddressSanitizer report rather than luck.
class HeapStr {
  char *p_;
  size_t n_;

 public:
  explicit HeapStr(const std::string &s) : p_(static_cast<char *>(malloc(s.size() ? s.size() : 1))), n_(s.size()) { memcpy(p_, s.data(), s.size()); }
  HeapStr(const HeapStr &) = delete;
  HeapStr &operator=(const HeapStr &) = delete;
  ~HeapStr() { free(p_); }
  opentelemetry::nostd::string_view view() const { return opentelemetry::nostd::string_view(p_, n_); }
  // overwrite the block with a different valid value of the same length (ownership checks, pass 1)
  void scribble(char c = '#') { memset(p_, c, n_); }
};

inline std::string printable(const std::string &s, size_t max = 80) {
  std::string o;
  for (unsigned char c : s) {
    if (o.size() >= max) { o += vf::sfmt("...(%zu bytes)", s.size()); break; }
    if (c >= 0x20 && c < 0x7f && c != '\\') o += (char)c;
    else o += vf::sfmt("\\x%02x", c);
  }
  return o;
}

// All single point mutations of `seed` over the byte classes in `classes` (one representative per
// class): replace, insert-before, delete at every position, truncate at every length, append.
inline std::vector<std::string> mutations(const std::string &seed, const std::string &classes) {
  std::vector<std::string> out;
  for (size_t i = 0; i <= seed.size(); ++i) {
    if (i < seed.size()) {
      for (char c : classes)
        if (c != seed[i]) { std::string m = seed; m[i] = c; out.push_back(m); }
      { std::string m = seed; m.erase(i, 1); out.push_back(m); }
      { std::string m = seed; m.insert(i, 1, seed[i]); out.push_back(m); }
      out.push_back(seed.substr(0, i));
    }
    for (char c : classes) { std::string m = seed; m.insert(i, 1, c); out.push_back(m); }
  }
  return out;
}

}  // namespace vfq
