// vf_clock.h - virtual clock behind a link-time interposed clock_gettime (both std::chrono clocks
// of libstdc++ go through it).  steady = real monotonic time at process start + virtual offset,
// system = fixed epoch + virtual offset + 1us per call (strictly increasing, never ties).
#pragma once
#include <cstdint>
namespace vf {
int64_t clock_virtual_ns();              // virtual offset, ns
void clock_set_virtual_ns(int64_t ns);   // the scheduler (or a harness) sets the offset
void clock_advance_ns(int64_t ns);
void clock_set_autostep_ns(int64_t ns);  // every clock_gettime call advances the offset by this much
void clock_reset();                      // offset 0, tick counter 0
int64_t clock_steady_base_ns();          // value returned by steady_clock when the offset is 0
int64_t clock_system_base_ns();
uint64_t clock_calls();
}  // namespace vf
