#include "vf_clock.h"
#include <atomic>
#include <sys/syscall.h>
#include <time.h>
#include <unistd.h>
namespace {
std::atomic<int64_t> g_virt{0};
std::atomic<int64_t> g_ticks{0};
std::atomic<int64_t> g_auto{0};
std::atomic<uint64_t> g_calls{0};
int64_t real_mono() {
  struct timespec ts;
  syscall(SYS_clock_gettime, CLOCK_MONOTONIC, &ts);
  return int64_t(ts.tv_sec) * 1000000000ll + ts.tv_nsec;
}
int64_t g_base = real_mono();
constexpr int64_t kSysBase = 1700000000ll * 1000000000ll;
}  // namespace
namespace vf {
int64_t clock_virtual_ns() { return g_virt.load(); }
void clock_set_virtual_ns(int64_t ns) { g_virt.store(ns); }
void clock_advance_ns(int64_t ns) { g_virt.fetch_add(ns); }
void clock_set_autostep_ns(int64_t ns) { g_auto.store(ns); }
void clock_reset() { g_virt.store(0); g_ticks.store(0); }
int64_t clock_steady_base_ns() { return g_base; }
int64_t clock_system_base_ns() { return kSysBase; }
uint64_t clock_calls() { return g_calls.load(); }
}  // namespace vf

extern "C" int clock_gettime(clockid_t id, struct timespec *ts) {
  if (id != CLOCK_MONOTONIC && id != CLOCK_REALTIME) return (int)syscall(SYS_clock_gettime, id, ts);
  g_calls.fetch_add(1);
  int64_t a = g_auto.load();
  int64_t v = a ? g_virt.fetch_add(a) + a : g_virt.load();
  int64_t t;
  if (id == CLOCK_MONOTONIC) t = g_base + v;
  else t = kSysBase + v + (g_ticks.fetch_add(1) + 1) * 1000;
  ts->tv_sec = t / 1000000000ll;
  ts->tv_nsec = t % 1000000000ll;
  return 0;
}
