// vf_core.cc - see vf_core.h. Compiled WITHOUT the Engine-A shim.
#include "vf_core.h"

#include <atomic>
#include <cerrno>
#include <csignal>
#include <cstdlib>
#include <fstream>
#include <map>
#include <sched.h>
#include <sstream>
#include <sys/mman.h>
#include <sys/time.h>
#include <sys/syscall.h>
#include <sys/wait.h>
#include <time.h>
#include <unistd.h>

// Coverage builds (bin/anchor_coverage.py, -DVF_COVERAGE --coverage): flush the gcov counters of this
// process before leaving it (workers and per-execution children leave through _exit, which skips atexit).
#ifdef VF_COVERAGE
extern "C" void __gcov_dump(void);
static inline void vf_exit(int c) { __gcov_dump(); _exit(c); }
#else
static inline void vf_exit(int c) { _exit(c); }
#endif

namespace vf {

const char *const kKindName[NKINDS] = {"free", "preempt", "timer", "cas", "wake", "mut"};

double real_now() {
  struct timespec ts;
  syscall(SYS_clock_gettime, CLOCK_MONOTONIC, &ts);
  return ts.tv_sec + ts.tv_nsec * 1e-9;
}

std::string sfmt(const char *fmt, ...) {
  char buf[4096];
  va_list ap;
  va_start(ap, fmt);
  vsnprintf(buf, sizeof buf, fmt, ap);
  va_end(ap);
  return buf;
}

std::string json_escape(const std::string &s) {
  std::string o;
  for (unsigned char c : s) {
    if (c == '"') o += "\\\"";
    else if (c == '\\') o += "\\\\";
    else if (c == '\n') o += "\\n";
    else if (c == '\t') o += "\\t";
    else if (c < 0x20 || c >= 0x7f) o += sfmt("\\u%04x", c);
    else o += (char)c;
  }
  return o;
}

std::string Options::get(const std::string &key, const std::string &dflt) const {
  std::string pre = "--" + key + "=";
  for (auto &e : extra)
    if (e.compare(0, pre.size(), pre) == 0) return e.substr(pre.size());
  return dflt;
}

namespace {

constexpr int MAXDEPTH = 32768;
constexpr int MAXSPLIT = 160;  // longest prefix that can be handed to another worker
constexpr int QCAP = 1 << 14;
constexpr int MAXVIOL = 8;
constexpr int MAXWORKERS = 64;
constexpr int MAXKF = 64;
constexpr int MAXCOUNTERS = 48;

struct Pos {
  uint16_t n, chosen, label;
  uint8_t kinds[MAXALT];  // all zero for picks with more than MAXALT (free) alternatives
  uint16_t done_upto;     // alternatives <= max(chosen, done_upto) are explored or handed to other workers
  inline uint8_t kind(int alt) const { return alt < MAXALT ? kinds[alt] : (uint8_t)FREE; }
};

struct Item {
  uint16_t len;
  Pos p[MAXSPLIT];
};

enum Result { RS_OK = 0, RS_VIOLATION = 1, RS_KNOWN = 2, RS_PRUNED = 3, RS_NONDET = 4 };

struct Slot {
  int pid;
  int item_len;
  int depth;
  int result;
  int busy;  // 1 while an execution is in flight (its stack is meaningful after a crash)
  int hang_retries;  // the execution in the slot hit its time limit once and is being re-run with larger limits
  int retry;         // resume by re-running the slot's stack as a prefix (after a first time-out)
  int has_item;
  char stage[64];
  char sig[192];
  char msg[3000];
  uint64_t th_a, th_b;  // trace hash of the last execution
  int nsamples;
  char samples[2][700];
  Pos stack[MAXDEPTH];
};

struct Viol {
  int used;
  int round_total;
  int depth;
  int count;
  int confirmed;
  char sig[192];
  char msg[3000];
  uint64_t th_a, th_b;
  Pos stack[MAXDEPTH];
};

struct Entry {
  std::atomic<uint64_t> k1;
  uint64_t k2;
  uint8_t rem[NKINDS];
  uint8_t total;
  uint8_t flag;
};

struct Counter {
  char name[40];
  std::atomic<uint64_t> v;
};

struct Shared {
  std::atomic_flag qlock;
  int qn;
  int idle;
  int done;
  int nworkers;
  std::atomic<int> stop;  // 1 violation limit, 2 deadline, 3 hard error
  double viol_deadline;   // real time after which the run stops once a violation was found
  std::atomic<uint64_t> execs, transitions, states, outcomes, pruned, items, crashes, known_execs, table_used, table_full, maxdepth;
  std::atomic<uint64_t> queue_overflow;
  std::atomic<uint64_t> timeouts_retried;
  int cap[NKINDS];
  int total_cap;
  std::atomic_flag vlock;
  int nviol;
  std::atomic<uint64_t> kf_hits[MAXKF];
  std::atomic_flag clock_;
  int ncounters;
  Counter counters[MAXCOUNTERS];
  char harderr[512];
  Slot slots[MAXWORKERS];
  Viol viol[MAXVIOL];
  Item queue[QCAP];
};

struct KnownFinding {
  std::string prop, sig, text;
  bool open;
};

Options g_opt;
Shared *g_sh = nullptr;
Entry *g_table = nullptr;
uint64_t g_tmask = 0;
Slot *g_slot = nullptr;
RunFn g_run;
std::vector<KnownFinding> g_kf;
double g_t0 = 0, g_deadline = 0;
std::string g_replay_path, g_out_path, g_kf_path = "/verif/known_findings.txt", g_replay_dir = "/verif/replays";

// per-execution state
int g_pos = 0;
int g_prefix_len = 0;
int g_used[NKINDS];
int g_used_total = 0;
H128 g_th;
Ctx g_ctx;

void lock(std::atomic_flag &f) {
  while (f.test_and_set(std::memory_order_acquire)) sched_yield();
}
void unlock(std::atomic_flag &f) { f.clear(std::memory_order_release); }

uint16_t label_hash(const char *s) {
  uint32_t h = 2166136261u;
  for (; *s; ++s) h = (h ^ (unsigned char)*s) * 16777619u;
  return (uint16_t)(h ^ (h >> 16));
}

[[noreturn]] void hard_error(const std::string &m) {
  fprintf(stderr, "vf: HARD ERROR: %s\n", m.c_str());
  if (g_sh) {
    lock(g_sh->vlock);
    if (!g_sh->harderr[0]) snprintf(g_sh->harderr, sizeof g_sh->harderr, "%s", m.c_str());
    unlock(g_sh->vlock);
    g_sh->stop = 3;
  }
  fflush(stdout);
  fflush(stderr);
  _exit(2);
}

bool affordable(const int *used, int used_total, uint8_t kind) {
  if (kind == FREE) return true;
  return used[kind] + 1 <= g_sh->cap[kind] && used_total + 1 <= g_sh->total_cap;
}

// shared table: returns pointer to the entry for (k1,k2), inserting it when absent; *isnew set.
Entry *table_get(uint64_t k1, uint64_t k2, bool *isnew) {
  *isnew = false;
  if (k1 == 0) k1 = 1;
  uint64_t i = k2 & g_tmask;
  for (int probe = 0; probe < 4096; ++probe, i = (i + 1) & g_tmask) {
    Entry &e = g_table[i];
    uint64_t cur = e.k1.load(std::memory_order_acquire);
    if (cur == 0) {
      if (g_sh->table_used.load() > (g_tmask + 1) * 7 / 10) { g_sh->table_full = 1; return nullptr; }
      uint64_t exp = 0;
      if (e.k1.compare_exchange_strong(exp, k1)) {
        e.k2 = k2;
        g_sh->table_used++;
        *isnew = true;
        return &e;
      }
      cur = exp;
    }
    if (cur == k1 && e.k2 == k2) return &e;
  }
  g_sh->table_full = 1;
  return nullptr;
}

void record_violation(int result, const std::string &sig, const std::string &msg) {
  g_slot->result = result;
  snprintf(g_slot->sig, sizeof g_slot->sig, "%s", sig.c_str());
  snprintf(g_slot->msg, sizeof g_slot->msg, "%s", msg.c_str());
}

// Limits of one execution: CPU time (robust against an overloaded machine) and, ten times larger, wall
// clock time (for an execution that is blocked without consuming CPU).
void arm_limits(int mult) {
  struct itimerval it;
  memset(&it, 0, sizeof it);
  it.it_value.tv_sec = g_opt.exec_alarm_s * mult;
  setitimer(ITIMER_PROF, &it, nullptr);
  alarm((unsigned)(g_opt.exec_alarm_s * mult * 10));
}
void disarm_limits() {
  struct itimerval it;
  memset(&it, 0, sizeof it);
  setitimer(ITIMER_PROF, &it, nullptr);
  alarm(0);
}

int find_kf(const std::string &sig) {
  for (size_t i = 0; i < g_kf.size() && i < MAXKF; ++i)
    if (g_kf[i].open && g_kf[i].sig == sig) return (int)i;
  return -1;
}

}  // namespace

// ---------------------------------------------------------------------------------------------
// Ctx
// ---------------------------------------------------------------------------------------------
int Ctx::pick(const char *label, int n) {
  static const uint8_t zero[MAXALT] = {0};
  if (n > 60000) hard_error(sfmt("pick '%s' with n=%d", label, n));
  int c = pick_costed(label, n > MAXALT ? -n : n, zero);
  // a data choice is part of what determines the future: fold it into the observation log, which
  // every state hash includes (scheduler choices go through pick_costed and are not folded)
  obs_.add((uint64_t(label_hash(label)) << 32) | (uint64_t)c);
  return c;
}

int Ctx::pick_costed(const char *label, int n, const uint8_t *kinds) {
  int nk = n;  // number of cost entries that are meaningful
  if (n < -MAXALT) { n = -n; nk = MAXALT; }  // wide free pick (from pick())
  if (n <= 0) hard_error(sfmt("pick '%s' with n=%d", label, n));
  if (n == 1) return 0;
  if (n > MAXALT && nk != MAXALT) hard_error(sfmt("costed pick '%s' with n=%d > MAXALT", label, n));
  if (kinds[0] != FREE) hard_error(sfmt("pick '%s': alternative 0 must be free", label));
  uint16_t lh = label_hash(label);
  Pos *p;
  if (g_pos < g_slot->depth) {
    p = &g_slot->stack[g_pos];
    if (g_pos >= g_prefix_len) hard_error("internal: position below depth but beyond prefix");
    if (p->n != n || p->label != lh) {
      record_violation(RS_NONDET, g_opt.property + ":NONDETERMINISM",
                       sfmt("replay diverged at choice %d: recorded n=%d label=%04x, now '%s' n=%d label=%04x", g_pos,
                            p->n, p->label, label, n, lh));
      hard_error(g_slot->msg);
    }
    if (p->kinds[0] == 0xff) { memset(p->kinds, 0, sizeof p->kinds); memcpy(p->kinds, kinds, nk); }  // replay file: costs come from the run
    if (memcmp(p->kinds, kinds, nk) != 0) hard_error(sfmt("replay diverged at choice %d: costs differ ('%s')", g_pos, label));
  } else {
    if (g_slot->depth >= MAXDEPTH) hard_error("execution has more than MAXDEPTH choices");
    p = &g_slot->stack[g_slot->depth];
    p->n = (uint16_t)n;
    p->chosen = 0;
    p->label = lh;
    memset(p->kinds, 0, sizeof p->kinds);
    memcpy(p->kinds, kinds, nk);
    p->done_upto = 0;
    g_slot->depth++;
  }
  int c = p->chosen;
  uint8_t k = p->kind(c);
  if (k != FREE) { g_used[k]++; g_used_total++; }
  g_th.add((uint64_t(lh) << 32) | (uint64_t(n) << 16) | uint64_t(c));
  if (tracing_) printf("  choice[%d] %s: %d of %d%s%s\n", g_pos, label, c, n, k ? " cost=" : "", k ? kKindName[k] : "");
  g_pos++;
  return c;
}

int Ctx::remaining(Kind k) const {
  int a = g_sh->cap[k] - g_used[k], b = g_sh->total_cap - g_used_total;
  return a < b ? a : b;
}
bool Ctx::in_prefix() const { return g_pos < g_prefix_len; }
const Options &Ctx::opt() const { return g_opt; }
bool Ctx::thorough() const { return g_opt.thorough; }
void Ctx::stage(const char *s) { snprintf(g_slot->stage, sizeof g_slot->stage, "%s", s); }
static uint64_t g_local_steps = 0;
void Ctx::step(uint64_t n) { g_local_steps += n; }

bool Ctx::state(const H128 &h) {
  bool isnew;
  Entry *e = table_get(h.a ^ 0x5bd1e995u, h.b, &isnew);
  if (e && isnew) { e->flag = 1; g_sh->states++; }
  return e ? isnew : false;
}

void Ctx::prune_point(const H128 &h0) {
  if (covered(h0)) throw Pruned{};
}

static void finalize_slot() {
  g_sh->transitions += g_local_steps;
  g_local_steps = 0;
  g_slot->th_a = g_th.a;
  g_slot->th_b = g_th.b;
  uint64_t d = (uint64_t)g_slot->depth, m = g_sh->maxdepth.load();
  while (d > m && !g_sh->maxdepth.compare_exchange_weak(m, d)) {}
}

void Ctx::exit_pruned() {
  if (!g_opt.fork_per_exec) throw Pruned{};
  g_slot->result = RS_PRUNED;
  finalize_slot();
  fflush(stdout);
  vf_exit(0);
}

void Ctx::exit_fail(const std::string &sig, const std::string &msg) {
  if (!g_opt.fork_per_exec) fail(sig, msg);
  int k = find_kf(sig);
  if (k >= 0) g_sh->kf_hits[k]++;
  record_violation(k >= 0 ? RS_KNOWN : RS_VIOLATION, sig, msg);
  if (tracing_) printf("  FAIL %s: %s\n", sig.c_str(), msg.c_str());
  finalize_slot();
  fflush(stdout);
  vf_exit(0);
}

bool Ctx::covered(const H128 &h0) {
  bool isnew;
  Entry *e = table_get(h0.a, h0.b, &isnew);
  if (!e) return false;
  uint8_t rem[NKINDS];
  for (int k = 0; k < NKINDS; ++k) { int r = g_sh->cap[k] - g_used[k]; rem[k] = (uint8_t)(r < 0 ? 0 : r); }
  int rt = g_sh->total_cap - g_used_total;
  uint8_t tot = (uint8_t)(rt < 0 ? 0 : rt);
  if (isnew) {
    g_sh->states++;
    memcpy(e->rem, rem, NKINDS);
    e->total = tot;
    e->flag = 2;
    return false;
  }
  if (e->flag != 2) { memcpy(e->rem, rem, NKINDS); e->total = tot; e->flag = 2; return false; }  // racing insert
  bool covered = e->total >= tot;
  bool dominates = tot >= e->total;
  for (int k = 1; k < NKINDS; ++k) {
    if (e->rem[k] < rem[k]) covered = false;
    if (rem[k] < e->rem[k]) dominates = false;
  }
  if (covered && g_opt.cache && g_pos >= g_prefix_len) {
    g_sh->pruned++;
    return true;
  }
  if (!covered && dominates) { memcpy(e->rem, rem, NKINDS); e->total = tot; }
  return false;
}

void Ctx::outcome(const std::string &canon) {
  H128 h;
  h.add(0x0c0ffee);
  h.add_str(canon);
  bool isnew;
  Entry *e = table_get(h.a, h.b, &isnew);
  if (e && isnew) { e->flag = 3; g_sh->outcomes++; }
}

void Ctx::sample(const std::string &s) {
  if (g_slot->nsamples < 2) snprintf(g_slot->samples[g_slot->nsamples++], sizeof g_slot->samples[0], "%s", s.c_str());
}

void Ctx::trace(const char *fmt, ...) {
  if (!tracing_) return;
  va_list ap;
  va_start(ap, fmt);
  printf("  ");
  vprintf(fmt, ap);
  printf("\n");
  va_end(ap);
}

void Ctx::fail(const std::string &sig, const std::string &msg) {
  int k = find_kf(sig);
  if (k >= 0) {
    g_sh->kf_hits[k]++;
    record_violation(RS_KNOWN, sig, msg);
  } else {
    record_violation(RS_VIOLATION, sig, msg);
  }
  if (tracing_) printf("  FAIL %s: %s\n", sig.c_str(), msg.c_str());
  throw Stop{};
}

bool Ctx::report(const std::string &sig, const std::string &msg) {
  int k = find_kf(sig);
  if (k >= 0) {
    g_sh->kf_hits[k]++;
    if (tracing_) printf("  KNOWN %s: %s\n", sig.c_str(), msg.c_str());
    return true;
  }
  fail(sig, msg);
}

void Ctx::counted(const char *name, uint64_t n) {
  Shared *s = g_sh;
  for (int i = 0; i < s->ncounters; ++i)
    if (strcmp(s->counters[i].name, name) == 0) { s->counters[i].v += n; return; }
  lock(s->clock_);
  int i;
  for (i = 0; i < s->ncounters; ++i)
    if (strcmp(s->counters[i].name, name) == 0) break;
  if (i == s->ncounters && i < MAXCOUNTERS) {
    snprintf(s->counters[i].name, sizeof s->counters[i].name, "%s", name);
    s->counters[i].v = 0;
    s->ncounters++;
  }
  unlock(s->clock_);
  if (i < MAXCOUNTERS) s->counters[i].v += n;
}

namespace {

// Runs one execution in this process: replays stack[0..depth) then default choices.
void run_exec(bool tracing) {
  g_pos = 0;
  g_prefix_len = g_slot->depth;
  memset(g_used, 0, sizeof g_used);
  g_used_total = 0;
  g_th = H128();
  g_ctx.obs_ = H128();
  g_ctx.tracing_ = tracing;
  g_slot->result = RS_OK;
  g_slot->sig[0] = g_slot->msg[0] = 0;
  snprintf(g_slot->stage, sizeof g_slot->stage, "start");
  try {
    g_run(g_ctx);
  } catch (Stop &) {
  } catch (Pruned &) {
    g_slot->result = RS_PRUNED;
  } catch (std::exception &e) {
    std::string sig = g_opt.property + ":exception:" + g_slot->stage;
    int k = find_kf(sig);
    if (k >= 0) g_sh->kf_hits[k]++;
    record_violation(k >= 0 ? RS_KNOWN : RS_VIOLATION, sig, std::string("uncaught exception: ") + e.what());
  }
  if (g_slot->result != RS_PRUNED && g_slot->result != RS_VIOLATION && g_slot->result != RS_KNOWN && g_pos < g_prefix_len)
    hard_error(sfmt("NONDETERMINISM: execution ended after %d choices but the replayed prefix has %d", g_pos, g_prefix_len));
  // an execution that stopped early inside its prefix keeps the prefix (nothing beyond it was explored)
  finalize_slot();
}

void add_violation_from_slot(Slot *s) {
  Shared *sh = g_sh;
  lock(sh->vlock);
  int found = -1;
  for (int i = 0; i < sh->nviol; ++i)
    if (strcmp(sh->viol[i].sig, s->sig) == 0) found = i;
  if (found >= 0) {
    sh->viol[found].count++;
    // keep the shortest counterexample
    if (s->depth < sh->viol[found].depth) {
      sh->viol[found].depth = s->depth;
      sh->viol[found].round_total = sh->total_cap;
      memcpy(sh->viol[found].stack, s->stack, sizeof(Pos) * s->depth);
      snprintf(sh->viol[found].msg, sizeof sh->viol[found].msg, "%s", s->msg);
      sh->viol[found].th_a = s->th_a;
      sh->viol[found].th_b = s->th_b;
    }
  } else if (sh->nviol < MAXVIOL) {
    Viol &v = sh->viol[sh->nviol];
    v.used = 1;
    v.round_total = sh->total_cap;
    v.count = 1;
    v.depth = s->depth;
    snprintf(v.sig, sizeof v.sig, "%s", s->sig);
    snprintf(v.msg, sizeof v.msg, "%s", s->msg);
    v.th_a = s->th_a;
    v.th_b = s->th_b;
    memcpy(v.stack, s->stack, sizeof(Pos) * s->depth);
    sh->nviol++;
    if (sh->nviol == 1) sh->viol_deadline = real_now() + 4.0;
    if (sh->nviol >= g_opt.max_violations || sh->nviol >= MAXVIOL) sh->stop = 1;
  }
  unlock(sh->vlock);
}

std::string describe_status(int st) {
  if (WIFSIGNALED(st)) return sfmt("killed by signal %d (%s)", WTERMSIG(st), strsignal(WTERMSIG(st)));
  if (WIFEXITED(st)) return sfmt("exit status %d", WEXITSTATUS(st));
  return "unknown status";
}

// crash of the process that was running the execution whose stack is in slot s
void handle_crash(Slot *s, int status) {
  g_sh->crashes++;
  if (WIFEXITED(status) && WEXITSTATUS(status) == 2) return;  // hard error already recorded
  std::string kind = (WIFSIGNALED(status) && (WTERMSIG(status) == SIGALRM || WTERMSIG(status) == SIGPROF)) ? "hang" : "crash";
  std::string sig = g_opt.property + ":" + kind + ":" + s->stage;
  std::string msg = kind + " in stage '" + s->stage + "': " + describe_status(status);
  int k = find_kf(sig);
  if (k >= 0) {
    g_sh->kf_hits[k]++;
    s->result = RS_KNOWN;
    return;
  }
  s->result = RS_VIOLATION;
  snprintf(s->sig, sizeof s->sig, "%s", sig.c_str());
  snprintf(s->msg, sizeof s->msg, "%s", msg.c_str());
  s->th_a = s->th_b = 0;
  add_violation_from_slot(s);
}

bool queue_push(const Pos *stack, int len, int alt) {
  Shared *sh = g_sh;
  lock(sh->qlock);
  if (sh->qn >= QCAP) { unlock(sh->qlock); sh->queue_overflow++; return false; }
  Item &it = sh->queue[sh->qn++];
  it.len = (uint16_t)len;
  memcpy(it.p, stack, sizeof(Pos) * len);
  it.p[len - 1].chosen = (uint16_t)alt;
  unlock(sh->qlock);
  sh->items++;
  return true;
}

// returns false when the whole exploration is finished
bool queue_pop(Slot *s) {
  Shared *sh = g_sh;
  bool idle = false;
  for (;;) {
    lock(sh->qlock);
    if (sh->done || sh->stop) { unlock(sh->qlock); return false; }
    if (sh->qn > 0) {
      Item &it = sh->queue[--sh->qn];
      if (idle) sh->idle--;
      s->item_len = it.len;
      s->depth = it.len;
      memcpy(s->stack, it.p, sizeof(Pos) * it.len);
      unlock(sh->qlock);
      return true;
    }
    if (!idle) { idle = true; sh->idle++; }
    if (sh->idle >= sh->nworkers) { sh->done = 1; unlock(sh->qlock); return false; }
    unlock(sh->qlock);
    usleep(300);
  }
}

int g_ub[MAXDEPTH + 1][NKINDS];
int g_ubt[MAXDEPTH + 1];

// Advance the slot's stack to the next unexplored execution of this worker's subtree.
bool backtrack(Slot *s) {
  int depth = s->depth;
  memset(g_ub[0], 0, sizeof g_ub[0]);
  g_ubt[0] = 0;
  for (int i = 0; i < depth; ++i) {
    memcpy(g_ub[i + 1], g_ub[i], sizeof g_ub[0]);
    g_ubt[i + 1] = g_ubt[i];
    uint8_t k = s->stack[i].kind(s->stack[i].chosen);
    if (k != FREE) { g_ub[i + 1][k]++; g_ubt[i + 1]++; }
  }
  // Work sharing: when the queue runs dry, hand out the remaining alternatives of the shallowest
  // open position (the largest unexplored subtrees). Positions below split_depth are always handed out.
  // pad[0] marks a position whose alternatives have all been handed out.
  for (int pass = 0; pass < 2; ++pass) {
    bool hungry = g_sh->qn < g_sh->nworkers;
    if (pass == 1 && !hungry) break;
    for (int i = s->item_len; i < depth && i < MAXSPLIT; ++i) {
      Pos &p = s->stack[i];
      if (pass == 0 && i >= g_opt.split_depth) break;
      bool any = false;
      int first = (p.chosen > p.done_upto ? p.chosen : p.done_upto) + 1;
      for (int alt = first; alt < p.n; ++alt) {
        if (affordable(g_ub[i], g_ubt[i], p.kind(alt))) {
          if (!queue_push(s->stack, i + 1, alt)) break;  // queue full: the rest stays with this worker
          any = true;
        }
        p.done_upto = (uint16_t)alt;
      }
      if (pass == 1 && any) break;  // one position per call is enough
    }
  }
  for (int i = depth - 1; i >= s->item_len; --i) {
    Pos &p = s->stack[i];
    int first = (p.chosen > p.done_upto ? p.chosen : p.done_upto) + 1;
    for (int alt = first; alt < p.n; ++alt) {
      if (!affordable(g_ub[i], g_ubt[i], p.kind(alt))) continue;
      p.chosen = (uint16_t)alt;
      s->depth = i + 1;
      return true;
    }
  }
  return false;
}

void worker_loop(int w, bool resume) {
  g_slot = &g_sh->slots[w];
  Slot *s = g_slot;
  s->pid = getpid();
  const char *pin_env = getenv("VF_PIN");  // development aid: VF_PIN=0 / 1 overrides the default below
  if (pin_env ? pin_env[0] == '1' : g_opt.fork_per_exec) {
    // one CPU per worker: the threads of an execution run strictly one at a time, so keeping them
    // on one CPU makes every hand-off a local context switch. In-process (sequence engine) workers have no
    // hand-offs and are left to the kernel's balancing: on a shared machine a pinned worker starves behind
    // whatever else runs on its CPU and a deadline-limited quick tier then explores a fraction of its space.
    long ncpu = sysconf(_SC_NPROCESSORS_ONLN);
    cpu_set_t set;
    CPU_ZERO(&set);
    CPU_SET((unsigned)(w % (ncpu > 0 ? ncpu : 1)), &set);
    sched_setaffinity(0, sizeof set, &set);
  }
  bool have = false;
  int limit_mult = 1;
  if (resume && s->has_item && s->retry) {
    // re-run the execution that timed out: its recorded stack is the prefix; four times the limits
    s->retry = 0;
    have = true;
    limit_mult = 4;
  } else if (resume && s->has_item) {
    have = backtrack(s);  // continue after the crashed execution
  }
  for (;;) {
    if (!have) {
      s->has_item = 0;
      if (!queue_pop(s)) break;
      s->has_item = 1;
    }
    if (g_sh->stop) break;
    if (real_now() > g_deadline) { g_sh->stop = 2; break; }
    if (g_sh->nviol > 0 && real_now() > g_sh->viol_deadline) { g_sh->stop = 1; break; }
    // execute
    s->busy = 1;
    if (g_opt.fork_per_exec) {
      fflush(stdout);
      fflush(stderr);
      pid_t c = fork();
      if (c < 0) hard_error("fork failed");
      if (c == 0) {
        arm_limits(1);
        run_exec(false);
        fflush(stdout);
        fflush(stderr);
        vf_exit(0);
      }
      int st = 0;
      while (waitpid(c, &st, 0) < 0 && errno == EINTR) {}
      if (WIFSIGNALED(st) && (WTERMSIG(st) == SIGALRM || WTERMSIG(st) == SIGPROF)) {
        // time limit hit: before calling it a hang, run the same execution once more, alone, with four times
        // the limits (an overloaded machine must not produce verdicts)
        g_sh->timeouts_retried++;
        fflush(stdout);
        fflush(stderr);
        pid_t c2 = fork();
        if (c2 == 0) {
          arm_limits(4);
          run_exec(false);
          fflush(stdout);
          fflush(stderr);
          vf_exit(0);
        }
        while (waitpid(c2, &st, 0) < 0 && errno == EINTR) {}
      }
      if (!(WIFEXITED(st) && WEXITSTATUS(st) == 0)) {
        if (WIFEXITED(st) && WEXITSTATUS(st) == 2) { g_sh->stop = 3; _exit(2); }
        handle_crash(s, st);
      } else if (s->result == RS_VIOLATION) {
        add_violation_from_slot(s);
      }
    } else {
      arm_limits(limit_mult);
      run_exec(false);
      disarm_limits();
      limit_mult = 1;
      s->hang_retries = 0;
      if (s->result == RS_VIOLATION) add_violation_from_slot(s);
    }
    s->busy = 0;
    g_sh->execs++;
    if (s->result == RS_KNOWN) g_sh->known_execs++;
    have = backtrack(s);
  }
  fflush(stdout);
  fflush(stderr);
  vf_exit(0);
}

void load_known_findings() {
  std::ifstream in(g_kf_path);
  std::string line;
  while (std::getline(in, line)) {
    if (line.empty() || line[0] == '#') continue;
    KnownFinding k;
    if (line.compare(0, 5, "open:") == 0) k.open = true;
    else if (line.compare(0, 6, "fixed:") == 0) k.open = false;
    else continue;
    std::istringstream ss(line.substr(line.find(':') + 1));
    std::string tok, rest;
    while (ss >> tok) {
      if (tok.compare(0, 9, "property=") == 0 && k.prop.empty()) k.prop = tok.substr(9);
      else if (tok.compare(0, 10, "signature=") == 0 && k.sig.empty()) k.sig = tok.substr(10);
      else rest += (rest.empty() ? "" : " ") + tok;
    }
    k.text = rest;
    if (k.open && !k.sig.empty()) g_kf.push_back(k);
  }
}

std::string choices_string(const Pos *st, int depth) {
  std::string s;
  for (int i = 0; i < depth; ++i) s += sfmt("%s%d:%d:%d", i ? " " : "", st[i].n, st[i].chosen, st[i].label);
  return s;
}

// run one full replay of `v` in a forked child; returns result code and fills sig/trace hash
int replay_in_child(const Pos *st, int depth, bool tracing, std::string *sig, uint64_t *tha, uint64_t *thb, std::string *msg) {
  Slot *s = &g_sh->slots[MAXWORKERS - 1];
  s->depth = depth;
  s->item_len = depth;
  memcpy(s->stack, st, sizeof(Pos) * depth);
  s->result = RS_OK;
  s->sig[0] = 0;
  fflush(stdout);
  fflush(stderr);
  pid_t c = fork();
  if (c == 0) {
    g_slot = s;
    g_opt.cache = false;  // a replay must run to its end: it is never cut at a covered state
    arm_limits(4);
    run_exec(tracing);
    fflush(stdout);
    fflush(stderr);
    vf_exit(0);
  }
  int stt = 0;
  while (waitpid(c, &stt, 0) < 0 && errno == EINTR) {}
  if (!(WIFEXITED(stt) && WEXITSTATUS(stt) == 0)) {
    std::string kind = (WIFSIGNALED(stt) && (WTERMSIG(stt) == SIGALRM || WTERMSIG(stt) == SIGPROF)) ? "hang" : "crash";
    *sig = g_opt.property + ":" + kind + ":" + s->stage;
    *msg = kind + " in stage '" + s->stage + "': " + describe_status(stt);
    *tha = *thb = 0;
    return (WIFEXITED(stt) && WEXITSTATUS(stt) == 2) ? RS_NONDET : RS_VIOLATION;
  }
  *sig = s->sig;
  *msg = s->msg;
  *tha = s->th_a;
  *thb = s->th_b;
  return s->result;
}

int g_replay_caps[6] = {-1, -1, -1, -1, -1, -1};
bool parse_replay(const std::string &path, std::vector<Pos> *out, std::string *tier) {
  std::ifstream in(path);
  if (!in) return false;
  std::stringstream ss;
  ss << in.rdbuf();
  std::string all = ss.str();
  size_t p = all.find("\"choices\"");
  if (p == std::string::npos) return false;
  p = all.find('"', all.find(':', p));
  size_t e = all.find('"', p + 1);
  std::istringstream cs(all.substr(p + 1, e - p - 1));
  std::string tok;
  while (cs >> tok) {
    int n, c, l;
    if (sscanf(tok.c_str(), "%d:%d:%d", &n, &c, &l) != 3) return false;
    Pos q;
    memset(&q, 0, sizeof q);
    q.n = (uint16_t)n; q.chosen = (uint16_t)c; q.label = (uint16_t)l;
    out->push_back(q);
  }
  size_t cp = all.find("\"caps\"");
  if (cp != std::string::npos) {
    size_t a = all.find('"', all.find(':', cp));
    sscanf(all.c_str() + a + 1, "%d %d %d %d %d %d", &g_replay_caps[0], &g_replay_caps[1], &g_replay_caps[2], &g_replay_caps[3], &g_replay_caps[4], &g_replay_caps[5]);
  }
  size_t t = all.find("\"tier\"");
  if (t != std::string::npos) {
    size_t a = all.find('"', all.find(':', t));
    size_t b = all.find('"', a + 1);
    *tier = all.substr(a + 1, b - a - 1);
  }
  return true;
}

}  // namespace

// In replay mode costs are not known from the file; the harness recomputes them, so the replay
// stack is filled lazily: n/label are verified, kinds are taken from the run.
int harness_main(int argc, char **argv, const char *harness, const char *property, SetupFn setup, RunFn run) {
  setvbuf(stdout, nullptr, _IOLBF, 0);
  g_opt.harness = harness;
  g_opt.property = property;
  g_run = run;
  std::string tier = getenv("VERIF_TIER") ? getenv("VERIF_TIER") : "quick";
  if (getenv("VERIF_SEED")) g_opt.seed = strtoull(getenv("VERIF_SEED"), nullptr, 10);
  double deadline_override = -1;
  int jobs_override = -1;
  bool no_cache = false, no_iter = false;
  int alarm_override = -1;
  for (int i = 1; i < argc; ++i) {
    std::string a = argv[i];
    auto val = [&](const char *k) -> const char * {
      size_t n = strlen(k);
      if (a.compare(0, n, k) == 0 && a.size() > n && a[n] == '=') return a.c_str() + n + 1;
      return nullptr;
    };
    const char *v;
    if ((v = val("--tier"))) tier = v;
    else if ((v = val("--replay"))) g_replay_path = v;
    else if ((v = val("--out"))) g_out_path = v;
    else if ((v = val("--jobs"))) jobs_override = atoi(v);
    else if ((v = val("--deadline"))) deadline_override = atof(v);
    else if ((v = val("--known"))) g_kf_path = v;
    else if ((v = val("--name"))) g_opt.harness = v;
    else if ((v = val("--alarm"))) alarm_override = atoi(v);
    else if ((v = val("--replay-dir"))) g_replay_dir = v;
    else if (a == "--no-cache") no_cache = true;
    else if (a == "--no-iter") no_iter = true;
    else g_opt.extra.push_back(a);
  }
  std::vector<Pos> replay;
  if (!g_replay_path.empty()) {
    std::string rtier;
    if (!parse_replay(g_replay_path, &replay, &rtier)) { fprintf(stderr, "cannot parse replay file %s\n", g_replay_path.c_str()); return 2; }
    if (!rtier.empty()) tier = rtier;
  }
  g_opt.thorough = (tier == "thorough");
  g_opt.deadline_s = g_opt.thorough ? 1500 : 150;
  setup(g_opt);
  if (deadline_override > 0) g_opt.deadline_s = deadline_override;
  if (jobs_override > 0) g_opt.jobs = jobs_override;
  if (alarm_override > 0) g_opt.exec_alarm_s = alarm_override;
  if (g_opt.jobs > MAXWORKERS - 2) g_opt.jobs = MAXWORKERS - 2;
  if (no_cache) g_opt.cache = false;
  if (no_iter) g_opt.iterative = false;
  int sumcaps = 0;
  for (int k = 1; k < NKINDS; ++k) sumcaps += g_opt.cap[k];
  if (g_opt.total_cap < 0 || g_opt.total_cap > sumcaps) g_opt.total_cap = sumcaps;
  load_known_findings();

  g_sh = static_cast<Shared *>(mmap(nullptr, sizeof(Shared), PROT_READ | PROT_WRITE, MAP_SHARED | MAP_ANONYMOUS, -1, 0));
  size_t tn = size_t(1) << g_opt.table_bits;
  g_table = static_cast<Entry *>(mmap(nullptr, tn * sizeof(Entry), PROT_READ | PROT_WRITE, MAP_SHARED | MAP_ANONYMOUS | MAP_NORESERVE, -1, 0));
  if (g_sh == MAP_FAILED || g_table == MAP_FAILED) { perror("mmap"); return 2; }
  g_tmask = tn - 1;
  g_t0 = real_now();
  g_deadline = g_t0 + g_opt.deadline_s;
  memcpy(g_sh->cap, g_opt.cap, sizeof g_sh->cap);
  g_sh->total_cap = g_opt.total_cap;

  // ---------------- replay mode ----------------
  if (!g_replay_path.empty()) {
    g_slot = &g_sh->slots[0];
    // costs are unknown in the file: accept whatever the run computes by pre-filling kinds lazily.
    // We do this by running with a permissive verifier: copy n/chosen/label and let kinds be set
    // from the first run (pass 1), then run again traced (pass 2).
    printf("replay %s: %zu choices, tier %s\n", g_replay_path.c_str(), replay.size(), tier.c_str());
    if (!g_opt.get("warmup").empty() && g_opt.fork_per_exec) {
      // reproduce the explorer's process image: one default execution in this process first
      g_slot->depth = 0;
      bool savecache = g_opt.cache;
      g_opt.cache = false;
      run_exec(false);
      g_opt.cache = savecache;
      printf("(warm-up execution done, result %d)\n", g_slot->result);
    }
    // pass 1: discover kinds
    Slot *s = g_slot;
    s->depth = 0;
    // run with depth 0 but forced choices: emulate by temporarily hooking through prefix with kinds filled on the fly
    // Simplest: iterate - extend the prefix one position at a time is quadratic; instead fill kinds with a
    // wildcard and let pick_costed accept them.
    for (size_t i = 0; i < replay.size(); ++i) { s->stack[i] = replay[i]; memset(s->stack[i].kinds, 0xff, MAXALT); }
    s->depth = (int)replay.size();
    if (g_replay_caps[0] >= 0) {
      for (int k = 1; k < NKINDS; ++k) g_sh->cap[k] = g_replay_caps[k - 1];
      g_sh->total_cap = g_replay_caps[5];
    }
    std::string sig, msg;
    uint64_t a, b;
    int r = replay_in_child(s->stack, s->depth, true, &sig, &a, &b, &msg);
    if (r == RS_VIOLATION || r == RS_KNOWN) {
      printf("REPLAY RESULT: %s signature=%s\n  %s\n", r == RS_KNOWN ? "known finding" : "violation", sig.c_str(), msg.c_str());
      return r == RS_VIOLATION ? 1 : 0;
    }
    printf("REPLAY RESULT: no violation (result code %d)\n", r);
    return r == RS_NONDET ? 2 : 0;
  }

  // ---------------- warm-up: one default execution, results discarded ----------------
  {
    std::string sig, msg;
    uint64_t a, b;
    // The warm-up runs in this process when executions are forked (so that function-local statics
    // are initialised in the image every child is forked from), otherwise in a child.
    if (g_opt.fork_per_exec) {
      // first in a child: if even the default execution fails, the exploration below will report it
      Pos none[1];
      int r = replay_in_child(none, 0, false, &sig, &a, &b, &msg);
      if (r == RS_OK) {
        g_slot = &g_sh->slots[MAXWORKERS - 1];
        g_slot->depth = 0;
        bool savecache = g_opt.cache;
        g_opt.cache = false;
        run_exec(false);
        g_opt.cache = savecache;
      } else {
        fprintf(stderr, "vf: note: the default execution does not pass (result %d %s); skipping in-process warm-up\n", r, sig.c_str());
      }
    }
    g_sh->execs = 0; g_sh->transitions = 0; g_sh->states = 0; g_sh->outcomes = 0; g_sh->pruned = 0; g_sh->items = 0;
    g_sh->crashes = 0; g_sh->known_execs = 0; g_sh->maxdepth = 0; g_sh->nviol = 0; g_sh->stop = 0;
    madvise(g_table, tn * sizeof(Entry), MADV_DONTNEED);
    munmap(g_table, tn * sizeof(Entry));
    g_table = static_cast<Entry *>(mmap(nullptr, tn * sizeof(Entry), PROT_READ | PROT_WRITE, MAP_SHARED | MAP_ANONYMOUS | MAP_NORESERVE, -1, 0));
    g_sh->table_used = 0; g_sh->table_full = 0;
    for (int i = 0; i < MAXKF; ++i) g_sh->kf_hits[i] = 0;
    for (int i = 0; i < g_sh->ncounters; ++i) g_sh->counters[i].v = 0;
    (void)sig; (void)msg; (void)a; (void)b;
  }

  // ---------------- exploration rounds ----------------
  struct RoundInfo { int total; uint64_t execs; bool complete; double wall; };
  std::vector<RoundInfo> rounds;
  int first_round = (g_opt.iterative && g_opt.total_cap > 0) ? 0 : g_opt.total_cap;
  int bounds_completed = -1;
  for (int D = first_round; D <= g_opt.total_cap && !g_sh->stop; ++D) {
    double r0 = real_now();
    uint64_t e0 = g_sh->execs;
    g_sh->total_cap = D;
    // fresh cache per round (states/outcomes counters keep accumulating distinct hashes per round:
    // reset them so that the final numbers describe the last, largest round)
    if (D != first_round) {
      madvise(g_table, tn * sizeof(Entry), MADV_DONTNEED);
      munmap(g_table, tn * sizeof(Entry));
      g_table = static_cast<Entry *>(mmap(nullptr, tn * sizeof(Entry), PROT_READ | PROT_WRITE, MAP_SHARED | MAP_ANONYMOUS | MAP_NORESERVE, -1, 0));
      g_sh->states = 0;
      g_sh->outcomes = 0;
      g_sh->table_used = 0;
    }
    g_sh->qn = 0;
    g_sh->idle = 0;
    g_sh->done = 0;
    g_sh->nworkers = g_opt.jobs;
    {
      Item &it = g_sh->queue[g_sh->qn++];
      it.len = 0;
    }
    std::map<pid_t, int> pids;
    fflush(stdout);
    fflush(stderr);
    for (int w = 0; w < g_opt.jobs; ++w) {
      g_sh->slots[w].has_item = 0;
      g_sh->slots[w].busy = 0;
      g_sh->slots[w].hang_retries = 0;
      g_sh->slots[w].retry = 0;
      pid_t c = fork();
      if (c == 0) worker_loop(w, false);
      pids[c] = w;
    }
    while (!pids.empty()) {
      int st = 0;
      pid_t c = wait(&st);
      if (c < 0) { if (errno == EINTR) continue; break; }
      auto it = pids.find(c);
      if (it == pids.end()) continue;
      int w = it->second;
      pids.erase(it);
      if (WIFEXITED(st) && WEXITSTATUS(st) == 0) continue;
      if (WIFEXITED(st) && WEXITSTATUS(st) == 2) { g_sh->stop = 3; continue; }
      // in-process worker crashed while running an execution: record and respawn to resume
      Slot *s = &g_sh->slots[w];
      if (s->busy && WIFSIGNALED(st) && (WTERMSIG(st) == SIGALRM || WTERMSIG(st) == SIGPROF) && s->hang_retries == 0) {
        // first time-out of this execution: re-run it alone with larger limits before calling it a hang
        g_sh->timeouts_retried++;
        s->hang_retries = 1;
        s->retry = 1;
        s->busy = 0;
        pid_t c2 = fork();
        if (c2 == 0) worker_loop(w, true);
        pids[c2] = w;
        continue;
      }
      s->hang_retries = 0;
      if (!s->busy) { snprintf(g_sh->harderr, sizeof g_sh->harderr, "worker %d died outside an execution: %s", w, describe_status(st).c_str()); g_sh->stop = 3; continue; }
      handle_crash(s, st);
      g_sh->execs++;
      s->busy = 0;
      if (g_sh->crashes > 2000) { g_sh->stop = 1; }
      // qlock may not be held by a dying worker (it dies inside run_exec only)
      pid_t c2 = fork();
      if (c2 == 0) worker_loop(w, true);
      pids[c2] = w;
    }
    bool complete = !g_sh->stop;
    rounds.push_back({D, g_sh->execs - e0, complete, real_now() - r0});
    if (complete) bounds_completed = D;
  }

  // ---------------- confirm violations by two fresh replays, write replay files ----------------
  int nviol = g_sh->nviol;
  int hard = (g_sh->stop == 3) ? 1 : 0;
  std::vector<std::string> replay_paths;
  int spurious_timeouts = 0;
  for (int i = 0; i < nviol; ++i) {
    Viol &v = g_sh->viol[i];
    g_sh->total_cap = v.round_total;
    bool same = true;
    std::string why;
    bool is_hang = strstr(v.sig, ":hang:") != nullptr;
    bool dropped = false;
    for (int rep = 0; rep < 2 && same; ++rep) {
      std::string sig, msg;
      uint64_t a, b;
      int r = replay_in_child(v.stack, v.depth, false, &sig, &a, &b, &msg);
      if (is_hang && r == RS_OK) {
        // the time limit was hit because the machine was overloaded: re-run alone with a four times larger
        // limit the execution completes and passes - not a violation, not an error
        fprintf(stderr, "vf: note: time limit hit in stage of %s did not reproduce on replay (load artefact), dropped\n", v.sig);
        dropped = true;
        break;
      }
      if (r != RS_VIOLATION || sig != v.sig) { same = false; why = sfmt("replay %d gave result %d sig '%s' (%s)", rep, r, sig.c_str(), msg.c_str()); }
      else if (v.th_a && (a != v.th_a || b != v.th_b)) { same = false; why = sfmt("replay %d: trace hash differs", rep); }
    }
    if (dropped) { v.used = 0; spurious_timeouts++; replay_paths.push_back(""); continue; }
    v.confirmed = same;
    if (!same) {
      hard = 1;
      fprintf(stderr, "vf: HARD ERROR: NONDETERMINISM: violation %s did not replay identically: %s\n", v.sig, why.c_str());
    }
    H128 h;
    h.add_str(v.sig);
    h.add_str(choices_string(v.stack, v.depth));
    std::string path = g_replay_dir + "/" + g_opt.property + "-" + g_opt.harness + sfmt("-%08x", (unsigned)(h.a & 0xffffffff)) + ".json";
    std::string cmd = "mkdir -p '" + g_replay_dir + "'";
    if (system(cmd.c_str()) != 0) {}
    std::ofstream out(path);
    std::string args;
    for (auto &e : g_opt.extra) args += (args.empty() ? "\"" : ", \"") + json_escape(e) + "\"";
    out << "{\n \"property\": \"" << g_opt.property << "\",\n \"harness\": \"" << g_opt.harness << "\",\n \"tier\": \"" << tier
        << "\",\n \"args\": [" << args << "],\n \"signature\": \"" << json_escape(v.sig) << "\",\n \"message\": \"" << json_escape(v.msg)
        << "\",\n \"occurrences\": " << v.count << ",\n \"confirmed_by_two_replays\": " << (same ? "true" : "false")
        << ",\n \"caps\": \"" << g_opt.cap[1] << " " << g_opt.cap[2] << " " << g_opt.cap[3] << " " << g_opt.cap[4] << " " << g_opt.cap[5] << " " << v.round_total << "\""
        << ",\n \"format\": \"choices are n:chosen:labelhash in execution order\",\n \"choices\": \"" << choices_string(v.stack, v.depth)
        << "\"\n}\n";
    out.close();
    replay_paths.push_back(path);
    printf("VIOLATION property=%s replay=%s\n  signature=%s occurrences=%d\n  %s\n", g_opt.property.c_str(), path.c_str(), v.sig, v.count, v.msg);
  }
  if (g_sh->harderr[0]) fprintf(stderr, "vf: HARD ERROR: %s\n", g_sh->harderr);

  // known findings that were hit
  for (size_t i = 0; i < g_kf.size() && i < MAXKF; ++i)
    if (g_sh->kf_hits[i] > 0)
      printf("KNOWN-FINDING: property=%s signature=%s %s (seen in %llu executions)\n", g_kf[i].prop.c_str(), g_kf[i].sig.c_str(),
             g_kf[i].text.c_str(), (unsigned long long)g_sh->kf_hits[i].load());

  double wall = real_now() - g_t0;
  bool exhaustive = (g_sh->stop == 0) && !g_sh->table_full.load();
  const char *cap_hit = g_sh->stop == 2 ? "deadline" : g_sh->stop == 1 ? "violation-limit" : g_sh->stop == 3 ? "hard-error" : "";
  printf("%s/%s tier=%s: executions=%llu transitions=%llu states=%llu outcomes=%llu pruned=%llu items=%llu crashes=%llu maxdepth=%llu "
         "bounds_completed=%d/%d exhaustive=%s%s%s violations=%d wall=%.1fs\n",
         g_opt.property.c_str(), g_opt.harness.c_str(), tier.c_str(), (unsigned long long)g_sh->execs.load(),
         (unsigned long long)g_sh->transitions.load(), (unsigned long long)g_sh->states.load(), (unsigned long long)g_sh->outcomes.load(),
         (unsigned long long)g_sh->pruned.load(), (unsigned long long)g_sh->items.load(), (unsigned long long)g_sh->crashes.load(),
         (unsigned long long)g_sh->maxdepth.load(), bounds_completed, g_opt.total_cap, exhaustive ? "true" : "false", cap_hit[0] ? " cap_hit=" : "",
         cap_hit, nviol, wall);

  if (!g_out_path.empty()) {
    std::ofstream out(g_out_path);
    out << "{\n \"harness\": \"" << g_opt.harness << "\", \"property\": \"" << g_opt.property << "\", \"tier\": \"" << tier
        << "\", \"seed\": " << g_opt.seed << ",\n \"wall_s\": " << sfmt("%.2f", wall) << ",\n \"executions\": " << g_sh->execs.load()
        << ", \"transitions\": " << g_sh->transitions.load() << ", \"states\": " << g_sh->states.load() << ", \"outcomes\": " << g_sh->outcomes.load()
        << ", \"pruned\": " << g_sh->pruned.load() << ", \"queue_items\": " << g_sh->items.load() << ", \"crashes\": " << g_sh->crashes.load()
        << ", \"timeouts_retried\": " << g_sh->timeouts_retried.load() << ", \"timeouts_dropped_after_replay\": " << spurious_timeouts << ", \"max_depth\": " << g_sh->maxdepth.load() << ", \"known_finding_executions\": " << g_sh->known_execs.load() << ",\n \"budgets\": {";
    for (int k = 1; k < NKINDS; ++k) out << (k > 1 ? ", " : "") << "\"" << kKindName[k] << "\": " << g_opt.cap[k];
    out << ", \"total\": " << g_opt.total_cap << "},\n \"rounds\": [";
    for (size_t i = 0; i < rounds.size(); ++i)
      out << (i ? ", " : "") << "{\"total_deviations\": " << rounds[i].total << ", \"executions\": " << rounds[i].execs << ", \"complete\": "
          << (rounds[i].complete ? "true" : "false") << ", \"wall_s\": " << sfmt("%.2f", rounds[i].wall) << "}";
    out << "],\n \"bounds_completed\": " << bounds_completed << ", \"exhaustive\": " << (exhaustive ? "true" : "false") << ", \"cap_hit\": \"" << cap_hit
        << "\", \"state_table_full\": " << (g_sh->table_full.load() ? "true" : "false") << ", \"fork_per_exec\": " << (g_opt.fork_per_exec ? "true" : "false")
        << ", \"jobs\": " << g_opt.jobs << ",\n \"violations\": " << nviol << ", \"hard_error\": " << (hard ? "true" : "false") << ",\n \"violation_list\": [";
    for (int i = 0; i < nviol; ++i)
      out << (i ? ", " : "") << "{\"signature\": \"" << json_escape(g_sh->viol[i].sig) << "\", \"replay\": \"" << json_escape(replay_paths[i])
          << "\", \"message\": \"" << json_escape(g_sh->viol[i].msg) << "\"}";
    out << "],\n \"known_findings\": [";
    bool first = true;
    for (size_t i = 0; i < g_kf.size() && i < MAXKF; ++i)
      if (g_sh->kf_hits[i] > 0) {
        out << (first ? "" : ", ") << "{\"signature\": \"" << json_escape(g_kf[i].sig) << "\", \"executions\": " << g_sh->kf_hits[i].load() << "}";
        first = false;
      }
    out << "],\n \"counters\": {";
    for (int i = 0; i < g_sh->ncounters; ++i) out << (i ? ", " : "") << "\"" << json_escape(g_sh->counters[i].name) << "\": " << g_sh->counters[i].v.load();
    out << "},\n \"samples\": [";
    int ns = 0;
    for (int w = 0; w < g_opt.jobs && ns < 6; ++w)
      for (int j = 0; j < g_sh->slots[w].nsamples && ns < 6; ++j) out << (ns++ ? ",\n  " : "\n  ") << "\"" << json_escape(g_sh->slots[w].samples[j]) << "\"";
    if (ns == 0) {
      // fall back to the choice list of the last execution of worker 0
      out << "\"choices(n:chosen:label) " << json_escape(choices_string(g_sh->slots[0].stack, g_sh->slots[0].depth > 40 ? 40 : g_sh->slots[0].depth)) << "\"";
    }
    out << "]\n}\n";
  }
  fflush(stdout);
  if (hard) return 2;
  return nviol > 0 ? 1 : 0;
}

}  // namespace vf
