// vf_core.h - shared core of both engines: a deviation-bounded depth-first exploration of a tree
// of recorded choices (replay from the root), parallel over forked workers with a shared work
// queue and a shared state table, crash isolation, replay files, evidence output.
//
// A harness is `void run(vf::Ctx&)`: every source of nondeterminism is a `pick`. The explorer
// enumerates the complete choice tree within the deviation budgets.
#pragma once
#include <cstdarg>
#include <cstdint>
#include <cstdio>
#include <cstring>
#include <functional>
#include <string>
#include <vector>

namespace vf {

enum Kind : uint8_t { FREE = 0, PREEMPT = 1, TIMER = 2, CAS = 3, WAKE = 4, MUT = 5, NKINDS = 6 };
constexpr int MAXALT = 12;
extern const char *const kKindName[NKINDS];

struct Stop {};    // ends an execution after a reported violation / known finding
struct Pruned {};  // ends an execution at a state that is already covered

struct H128 {
  uint64_t a = 0x9e3779b97f4a7c15ull, b = 0xc2b2ae3d27d4eb4full;
  static inline uint64_t mix(uint64_t x) {
    x ^= x >> 33; x *= 0xff51afd7ed558ccdull; x ^= x >> 33; x *= 0xc4ceb9fe1a85ec53ull; x ^= x >> 33;
    return x;
  }
  inline void add(uint64_t v) {
    a = mix(a ^ v) + 0x2545f4914f6cdd1dull;
    b = mix(b + v * 0x9e3779b97f4a7c15ull + 0x7f4a7c15ull) ^ (a << 1);
  }
  inline void add_bytes(const void *p, size_t n) {
    const unsigned char *c = static_cast<const unsigned char *>(p);
    add(n);
    while (n >= 8) { uint64_t v; memcpy(&v, c, 8); add(v); c += 8; n -= 8; }
    uint64_t v = 0; memcpy(&v, c, n); add(v ^ (uint64_t(n) << 56));
  }
  inline void add_str(const std::string &s) { add_bytes(s.data(), s.size()); }
};

struct Options {
  std::string harness;          // name of the harness (binary)
  std::string property;         // property id, e.g. "C11"
  bool fork_per_exec = false;   // Engine A: one forked child per execution
  int split_depth = 3;          // alternatives at the first split_depth choice positions become queue items
  int cap[NKINDS] = {0, 0, 0, 0, 0, 0};  // per-kind deviation budgets
  int total_cap = -1;           // cap on the sum of all deviations (-1: sum of caps)
  bool iterative = true;        // explore total deviations 0,1,2,... in rounds
  bool cache = true;            // allow pruning at covered states (prune_point)
  long horizon = 20000;         // Engine A: scheduling points per execution
  double deadline_s = 150;      // wall clock budget for the whole run
  int jobs = 16;
  int max_violations = 6;       // distinct signatures reported before stopping
  int table_bits = 22;          // shared state table size (entries = 1<<bits)
  int exec_alarm_s = 30;        // real-time limit of one forked execution
  bool thorough = false;
  uint64_t seed = 0;
  std::vector<std::string> extra;  // unparsed --key=value arguments for the harness
  std::string get(const std::string &key, const std::string &dflt = "") const;
};

class Ctx {
 public:
  // --- choices -------------------------------------------------------------------------------
  int pick(const char *label, int n);   // data choice, all alternatives free; folded into the observation log
  int pick_costed(const char *label, int n, const uint8_t *kinds);      // kinds[i] = cost of alt i; NOT folded into obs (scheduler-level)
  bool deviate(const char *label, Kind k) { uint8_t ks[2] = {FREE, (uint8_t)k}; return pick_costed(label, 2, ks) == 1; }
  bool flip(const char *label) { return pick(label, 2) == 1; }
  template <class T> const T &pick_from(const char *label, const std::vector<T> &v) { return v[pick(label, (int)v.size())]; }
  int remaining(Kind k) const;      // remaining budget of that kind (min of kind cap and total)
  bool in_prefix() const;           // still replaying the given prefix
  // --- bookkeeping ---------------------------------------------------------------------------
  const Options &opt() const;
  bool thorough() const;
  void stage(const char *s);        // short label; part of the signature of a crash
  void step(uint64_t n = 1);        // transitions executed
  bool state(const H128 &h);        // count a visited state; true if new
  bool state(const std::string &canon) { H128 h; h.add_str(canon); return state(h); }
  void prune_point(const H128 &h);  // throws Pruned if this state was visited with >= remaining budget
  bool covered(const H128 &h);      // non-throwing form of prune_point (any thread)
  [[noreturn]] void exit_pruned();  // fork-per-execution harnesses only: end this execution now
  [[noreturn]] void exit_fail(const std::string &sig, const std::string &msg);  // ditto, any thread
  void outcome(const std::string &canon);  // distinct complete-execution outcomes
  void sample(const std::string &s);       // candidate sample for the evidence file
  void obs(uint64_t v) { obs_.add(v); }    // observation log hash
  void obs_str(const std::string &s) { obs_.add_str(s); }
  const H128 &obs_hash() const { return obs_; }
  bool tracing() const { return tracing_; }
  void trace(const char *fmt, ...) __attribute__((format(printf, 2, 3)));
  // --- oracle --------------------------------------------------------------------------------
  // A failed check ends the execution. If `sig` is listed `open` in known_findings.txt it is
  // recorded as a known finding, otherwise as a violation.
  [[noreturn]] void fail(const std::string &sig, const std::string &msg);
  void check(bool ok, const std::string &sig, const std::string &msg) { if (!ok) fail(sig, msg); }
  // like fail(), but returns normally (true) when the signature is a listed known finding, so
  // that the harness can re-synchronise its model and go on
  bool report(const std::string &sig, const std::string &msg);
  void counted(const char *counter, uint64_t n = 1);  // free-form counters for the evidence file

  // internal
  Ctx() {}
  H128 obs_;
  bool tracing_ = false;
};

using RunFn = std::function<void(Ctx &)>;
using SetupFn = std::function<void(Options &)>;  // harness adjusts budgets per tier

// Entry point for a harness binary. `setup` is called once after argument parsing.
int harness_main(int argc, char **argv, const char *harness, const char *property, SetupFn setup, RunFn run);

// real (non-virtual) monotonic time in seconds
double real_now();

std::string sfmt(const char *fmt, ...) __attribute__((format(printf, 1, 2)));
std::string json_escape(const std::string &s);

}  // namespace vf

#define VF_MAIN(HARNESS, PROPERTY, SETUP, RUN) \
  int main(int argc, char **argv) { return vf::harness_main(argc, argv, HARNESS, PROPERTY, SETUP, RUN); }
