// vf_std.h - force-included (-include) in front of every translation unit of an Engine-A build.
// It pulls in the whole standard library first (so that include guards are set), defines
// scheduler-backed look-alikes of the synchronisation vocabulary in namespace std, and then
// token-renames the standard names so that the *unmodified* opentelemetry-cpp sources and headers
// compiled afterwards use the look-alikes.  See DESIGN.md section 2.1.
#ifndef VF_STD_H_
#define VF_STD_H_

#include <bits/stdc++.h>
#include <pthread.h>
#include <semaphore.h>
#include <sys/types.h>
#include <unistd.h>

#include "sched/vf_sched.h"

extern "C" unsigned vf_random_next(void);

namespace std {

template <class T>
inline uint64_t vf_vh(const T &v) noexcept {
  if constexpr (is_pointer_v<T>) return v != nullptr ? 1 : 0;
  else if constexpr (is_integral_v<T> || is_enum_v<T>) return (uint64_t)v;
  else {
    uint64_t h = 1469598103934665603ull;
    const unsigned char *p = reinterpret_cast<const unsigned char *>(&v);
    for (size_t i = 0; i < sizeof(T); ++i) h = (h ^ p[i]) * 1099511628211ull;
    return h;
  }
}

inline int64_t vf_sat_add(int64_t a, int64_t b) noexcept {
  int64_t r;
  if (__builtin_add_overflow(a, b, &r)) return b > 0 ? INT64_MAX : INT64_MIN;
  return r;
}

template <class T>
class vf_atomic {
  T val_;
  mutable int id_;
  int reg() const noexcept {
    if (id_ < 0) id_ = vfs::obj_new("atomic", (uint64_t)(uintptr_t)this, vf_vh(val_));
    return id_;
  }

 public:
  using value_type = T;
  vf_atomic() noexcept : val_(), id_(vfs::active() ? vfs::obj_new("atomic", 0, vf_vh(T())) : -1) {}
  vf_atomic(T v) noexcept : val_(v), id_(vfs::active() ? vfs::obj_new("atomic", 0, vf_vh(v)) : -1) {}
  ~vf_atomic() { if (id_ >= 0) vfs::obj_del(id_); }
  vf_atomic(const vf_atomic &) = delete;
  vf_atomic &operator=(const vf_atomic &) = delete;

  bool is_lock_free() const noexcept { return true; }
  T load(memory_order = memory_order_seq_cst) const noexcept {
    if (!vfs::active()) return val_;
    int id = reg();
    vfs::point(vfs::OP_LOAD, id);
    T v = val_;
    vfs::did_read(id, vf_vh(v));
    return v;
  }
  void store(T v, memory_order = memory_order_seq_cst) noexcept {
    if (!vfs::active()) { val_ = v; return; }
    int id = reg();
    vfs::point(vfs::OP_STORE, id);
    val_ = v;
    vfs::did_write(id, vf_vh(v), false);
  }
  T exchange(T v, memory_order = memory_order_seq_cst) noexcept {
    if (!vfs::active()) { T o = val_; val_ = v; return o; }
    int id = reg();
    vfs::point(vfs::OP_RMW, id);
    T o = val_;
    val_ = v;
    vfs::did_read(id, vf_vh(o));
    if (!(o == v)) vfs::did_write(id, vf_vh(v), true);  // an RMW that leaves the value unchanged is an observation only
    return o;
  }
  bool vf_cas(T &e, T d, bool weak) noexcept {
    if (!vfs::active()) {
      if (val_ == e) { val_ = d; return true; }
      e = val_;
      return false;
    }
    int id = reg();
    vfs::point(vfs::OP_CAS, id);
    if (val_ == e) {
      if (weak && vfs::cas_may_fail(id)) { vfs::did_read(id, vf_vh(val_) ^ 0x5f5f5f); return false; }
      val_ = d;
      vfs::did_read(id, vf_vh(e));
      if (!(d == e)) vfs::did_write(id, vf_vh(d), true);
      return true;
    }
    e = val_;
    vfs::did_read(id, vf_vh(val_));
    return false;
  }
  bool compare_exchange_weak(T &e, T d, memory_order = memory_order_seq_cst) noexcept { return vf_cas(e, d, true); }
  bool compare_exchange_weak(T &e, T d, memory_order, memory_order) noexcept { return vf_cas(e, d, true); }
  bool compare_exchange_strong(T &e, T d, memory_order = memory_order_seq_cst) noexcept { return vf_cas(e, d, false); }
  bool compare_exchange_strong(T &e, T d, memory_order, memory_order) noexcept { return vf_cas(e, d, false); }
  template <class F>
  T vf_rmw(F f) noexcept {
    if (!vfs::active()) { T o = val_; val_ = f(o); return o; }
    int id = reg();
    vfs::point(vfs::OP_RMW, id);
    T o = val_;
    val_ = f(o);
    vfs::did_read(id, vf_vh(o));
    if (!(val_ == o)) vfs::did_write(id, vf_vh(val_), true);
    return o;
  }
  T fetch_add(T a, memory_order = memory_order_seq_cst) noexcept { return vf_rmw([a](T o) { return (T)(o + a); }); }
  T fetch_sub(T a, memory_order = memory_order_seq_cst) noexcept { return vf_rmw([a](T o) { return (T)(o - a); }); }
  T fetch_or(T a, memory_order = memory_order_seq_cst) noexcept { return vf_rmw([a](T o) { return (T)(o | a); }); }
  T fetch_and(T a, memory_order = memory_order_seq_cst) noexcept { return vf_rmw([a](T o) { return (T)(o & a); }); }
  T fetch_xor(T a, memory_order = memory_order_seq_cst) noexcept { return vf_rmw([a](T o) { return (T)(o ^ a); }); }
  operator T() const noexcept { return load(); }
  T operator=(T v) noexcept { store(v); return v; }
  T operator++() noexcept { return (T)(fetch_add(1) + 1); }
  T operator++(int) noexcept { return fetch_add(1); }
  T operator--() noexcept { return (T)(fetch_sub(1) - 1); }
  T operator--(int) noexcept { return fetch_sub(1); }
  T operator+=(T a) noexcept { return (T)(fetch_add(a) + a); }
  T operator-=(T a) noexcept { return (T)(fetch_sub(a) - a); }
  T operator|=(T a) noexcept { return (T)(fetch_or(a) | a); }
  T operator&=(T a) noexcept { return (T)(fetch_and(a) & a); }
};

class vf_atomic_flag {
  vf_atomic<bool> f_;

 public:
  vf_atomic_flag() noexcept : f_(false) {}
  vf_atomic_flag(bool v) noexcept : f_(v) {}
  vf_atomic_flag(const vf_atomic_flag &) = delete;
  vf_atomic_flag &operator=(const vf_atomic_flag &) = delete;
  bool test_and_set(memory_order o = memory_order_seq_cst) noexcept { return f_.exchange(true, o); }
  void clear(memory_order o = memory_order_seq_cst) noexcept { f_.store(false, o); }
  bool test(memory_order o = memory_order_seq_cst) const noexcept { return f_.load(o); }
};

class vf_mutex {
  mutable int id_;

 public:
  int vf_id() const noexcept {
    if (id_ < 0) id_ = vfs::obj_new("mutex", (uint64_t)(uintptr_t)this, 0);
    return id_;
  }
  vf_mutex() noexcept : id_(vfs::active() ? vfs::obj_new("mutex", 0, 0) : -1) {}
  ~vf_mutex() { if (id_ >= 0) vfs::obj_del(id_); }
  vf_mutex(const vf_mutex &) = delete;
  vf_mutex &operator=(const vf_mutex &) = delete;
  void lock() { if (vfs::active()) vfs::mutex_lock(vf_id()); }
  bool try_lock() { return vfs::active() ? vfs::mutex_trylock(vf_id()) : true; }
  void unlock() { if (vfs::active()) vfs::mutex_unlock(vf_id()); }
};

class vf_condition_variable {
  mutable int id_;
  int reg() const noexcept {
    if (id_ < 0) id_ = vfs::obj_new("condvar", (uint64_t)(uintptr_t)this, 0);
    return id_;
  }
  template <class C, class D>
  static int64_t to_deadline(const chrono::time_point<C, D> &tp) {
    if constexpr (is_same_v<C, chrono::steady_clock>) {
      return chrono::duration_cast<chrono::nanoseconds>(tp.time_since_epoch()).count();
    } else {
      auto delta = chrono::duration_cast<chrono::nanoseconds>(tp - C::now()).count();
      return vf_sat_add(vfs::now_ns(), delta);
    }
  }

 public:
  vf_condition_variable() noexcept : id_(vfs::active() ? vfs::obj_new("condvar", 0, 0) : -1) {}
  ~vf_condition_variable() { if (id_ >= 0) vfs::obj_del(id_); }
  vf_condition_variable(const vf_condition_variable &) = delete;
  vf_condition_variable &operator=(const vf_condition_variable &) = delete;
  void notify_one() noexcept { if (vfs::active()) vfs::cv_notify(reg(), false); }
  void notify_all() noexcept { if (vfs::active()) vfs::cv_notify(reg(), true); }
  void wait(unique_lock<vf_mutex> &lk) { vfs::cv_wait(reg(), lk.mutex()->vf_id(), -1); }
  template <class P>
  void wait(unique_lock<vf_mutex> &lk, P pred) {
    while (!pred()) wait(lk);
  }
  template <class C, class D>
  cv_status wait_until(unique_lock<vf_mutex> &lk, const chrono::time_point<C, D> &tp) {
    int64_t dl = to_deadline(tp);
    if (dl < 0) dl = 0;
    return vfs::cv_wait(reg(), lk.mutex()->vf_id(), dl) ? cv_status::no_timeout : cv_status::timeout;
  }
  template <class C, class D, class P>
  bool wait_until(unique_lock<vf_mutex> &lk, const chrono::time_point<C, D> &tp, P pred) {
    while (!pred())
      if (wait_until(lk, tp) == cv_status::timeout) return pred();
    return true;
  }
  template <class R, class Pd>
  cv_status wait_for(unique_lock<vf_mutex> &lk, const chrono::duration<R, Pd> &d) {
    int64_t ns = vf_dur_ns(d);
    int64_t dl = vf_sat_add(vfs::now_ns(), ns);
    if (dl < 0) dl = 0;
    return vfs::cv_wait(reg(), lk.mutex()->vf_id(), dl) ? cv_status::no_timeout : cv_status::timeout;
  }
  template <class R, class Pd, class P>
  bool wait_for(unique_lock<vf_mutex> &lk, const chrono::duration<R, Pd> &d, P pred) {
    int64_t ns = vf_dur_ns(d);
    int64_t dl = vf_sat_add(vfs::now_ns(), ns);
    if (dl < 0) dl = 0;
    while (!pred())
      if (!vfs::cv_wait(reg(), lk.mutex()->vf_id(), dl)) return pred();
    return true;
  }
  template <class R, class Pd>
  static int64_t vf_dur_ns(const chrono::duration<R, Pd> &d) {
    // saturating conversion to nanoseconds
    using ld = long double;
    ld v = (ld)d.count() * (ld)Pd::num / (ld)Pd::den * 1e9L;
    if (v >= (ld)INT64_MAX) return INT64_MAX;
    if (v <= (ld)INT64_MIN) return INT64_MIN;
    return (int64_t)v;
  }
};

class vf_thread {
  int tid_ = -1;
  template <class Tup>
  struct Impl : vfs::Task {
    Tup t;
    explicit Impl(Tup &&x) : t(std::move(x)) {}
    template <size_t... I>
    void call(index_sequence<I...>) { std::invoke(std::move(std::get<I>(t))...); }
    void run() override { call(make_index_sequence<tuple_size_v<Tup>>()); }
  };

 public:
  class id {
    int v_;

   public:
    id() noexcept : v_(-1) {}
    explicit id(int v) noexcept : v_(v) {}
    int vf_value() const { return v_; }
    friend bool operator==(id a, id b) noexcept { return a.v_ == b.v_; }
    friend bool operator!=(id a, id b) noexcept { return a.v_ != b.v_; }
    friend bool operator<(id a, id b) noexcept { return a.v_ < b.v_; }
    template <class C, class Tr>
    friend basic_ostream<C, Tr> &operator<<(basic_ostream<C, Tr> &o, id i) { return o << "T" << i.v_; }
  };
  using native_handle_type = int;
  vf_thread() noexcept = default;
  template <class F, class... A, class = enable_if_t<!is_same_v<decay_t<F>, vf_thread>>>
  explicit vf_thread(F &&f, A &&...a) {
    using Tup = tuple<decay_t<F>, decay_t<A>...>;
    tid_ = vfs::thread_spawn(new Impl<Tup>(Tup(std::forward<F>(f), std::forward<A>(a)...)));
  }
  vf_thread(vf_thread &&o) noexcept : tid_(o.tid_) { o.tid_ = -1; }
  vf_thread(const vf_thread &) = delete;
  vf_thread &operator=(vf_thread &&o) noexcept {
    if (joinable()) std::terminate();
    tid_ = o.tid_;
    o.tid_ = -1;
    return *this;
  }
  ~vf_thread() { if (joinable()) std::terminate(); }
  bool joinable() const noexcept { return tid_ >= 0; }
  void join() {
    if (tid_ < 0) throw system_error(make_error_code(errc::invalid_argument));
    vfs::thread_join(tid_);
    tid_ = -1;
  }
  void detach() { tid_ = -1; }
  id get_id() const noexcept { return id(tid_); }
  void swap(vf_thread &o) noexcept { std::swap(tid_, o.tid_); }
  static unsigned hardware_concurrency() noexcept { return 4; }
};

namespace vf_this_thread {
inline void yield() noexcept { vfs::yield(); }
inline vf_thread::id get_id() noexcept { return vf_thread::id(vfs::self()); }
template <class R, class Pd>
inline void sleep_for(const chrono::duration<R, Pd> &d) {
  int64_t ns = vf_condition_variable::vf_dur_ns(d);
  if (ns <= 0) { vfs::yield(); return; }
  vfs::sleep_until(vf_sat_add(vfs::now_ns(), ns));
}
template <class C, class D>
inline void sleep_until(const chrono::time_point<C, D> &tp) {
  sleep_for(tp - C::now());
}
}  // namespace vf_this_thread

struct vf_shared_state {
  int id;
  vf_shared_state() : id(vfs::obj_new("promise", 0, 0)) {}
  ~vf_shared_state() { vfs::obj_del(id); }
};

template <class T> class vf_future;
template <class T> class vf_promise;

template <>
class vf_future<void> {
  shared_ptr<vf_shared_state> st_;

 public:
  vf_future() noexcept = default;
  explicit vf_future(shared_ptr<vf_shared_state> s) : st_(std::move(s)) {}
  vf_future(vf_future &&) noexcept = default;
  vf_future &operator=(vf_future &&) noexcept = default;
  bool valid() const noexcept { return (bool)st_; }
  void wait() const { vfs::future_wait(st_->id, -1); }
  void get() { wait(); st_.reset(); }
  template <class R, class Pd>
  future_status wait_for(const chrono::duration<R, Pd> &d) const {
    int64_t dl = vf_sat_add(vfs::now_ns(), vf_condition_variable::vf_dur_ns(d));
    if (dl < 0) dl = 0;
    return vfs::future_wait(st_->id, dl) ? future_status::ready : future_status::timeout;
  }
  template <class C, class D>
  future_status wait_until(const chrono::time_point<C, D> &tp) const {
    return wait_for(tp - C::now());
  }
};

template <>
class vf_promise<void> {
  shared_ptr<vf_shared_state> st_;

 public:
  vf_promise() : st_(make_shared<vf_shared_state>()) {}
  vf_promise(vf_promise &&) noexcept = default;
  vf_promise &operator=(vf_promise &&) noexcept = default;
  vf_promise(const vf_promise &) = delete;
  vf_future<void> get_future() { return vf_future<void>(st_); }
  void set_value() { vfs::promise_set(st_->id); }
  void set_exception(exception_ptr) { vfs::promise_set(st_->id); }
};

class vf_random_device {
 public:
  using result_type = unsigned int;
  vf_random_device() {}
  explicit vf_random_device(const string &) {}
  static constexpr result_type min() { return 0; }
  static constexpr result_type max() { return 0xffffffffu; }
  double entropy() const noexcept { return 32.0; }
  result_type operator()() { return vf_random_next(); }
};

inline void vf_spin_pause() noexcept { vfs::spin_pause(); }

}  // namespace std

using std::vf_spin_pause;

#undef ATOMIC_FLAG_INIT
#define ATOMIC_FLAG_INIT {}

#define atomic vf_atomic
#define atomic_flag vf_atomic_flag
#define mutex vf_mutex
#define condition_variable vf_condition_variable
#define thread vf_thread
#define this_thread vf_this_thread
#define promise vf_promise
#define future vf_future
#define random_device vf_random_device
#define __builtin_ia32_pause vf_spin_pause
#define _mm_pause vf_spin_pause

#endif  // VF_STD_H_
