// vf_sched.h - cooperative scheduler behind the token-renaming shim (Engine A).
// Real OS threads, exactly one runs at a time; every synchronisation operation of the code under
// test is a scheduling point decided by the explorer (vf::Ctx).  Compiled without the shim.
#pragma once
#include <cstdint>
#include <string>

namespace vf { class Ctx; }

namespace vfs {

enum Op : uint8_t {
  OP_LOAD, OP_STORE, OP_RMW, OP_CAS, OP_LOCK, OP_TRYLOCK, OP_UNLOCK, OP_WAIT, OP_NOTIFY, OP_SPAWN, OP_JOIN,
  OP_YIELD, OP_SLEEP, OP_PAUSE, OP_PROMISE_SET, OP_FUTURE_WAIT, OP_USER, OP_EXIT, OP_NOPS
};

struct Task {  // type-erased thread body
  virtual void run() = 0;
  virtual ~Task() {}
};

// ---- session --------------------------------------------------------------------------------
// begin(): the calling thread becomes thread 0 of a fresh scheduling session driven by ctx.
// end(): all spawned threads must have finished; checks and closes the session.
void begin(vf::Ctx &ctx);
void end();
bool active();            // a session is running and the caller is one of its threads
int self();               // id of the calling session thread (0 = harness main)
uint64_t points();        // scheduling points so far in this execution

// ---- objects --------------------------------------------------------------------------------
// Every shim object registers itself; `name` is stable across interleavings (creator, ordinal).
// name_hint 0: named after (creating thread, ordinal); otherwise after the hint (an address of a
// lazily registered object that was created before the session). vh: hash of the initial value.
int obj_new(const char *type, uint64_t name_hint, uint64_t vh);
void obj_del(int id);

// ---- atomics --------------------------------------------------------------------------------
void point(Op op, int obj);                    // scheduling point before a visible operation
void did_read(int obj, uint64_t vh);           // fold an observation into the running thread
void did_write(int obj, uint64_t vh, bool rmw);  // publish a new value (write epoch advances)
bool cas_may_fail(int obj);                    // weak CAS about to succeed: spurious-failure deviation?

// ---- mutex / condition variable ---------------------------------------------------------------
void mutex_lock(int m);
bool mutex_trylock(int m);
void mutex_unlock(int m);
// returns true when woken by notify (or spuriously), false on timeout; deadline_ns<0: untimed.
bool cv_wait(int cv, int m, int64_t deadline_ns);
void cv_notify(int cv, bool all);

// ---- threads --------------------------------------------------------------------------------
int thread_spawn(Task *t);   // takes ownership
void thread_join(int tid);
bool thread_finished(int tid);
void yield();
void spin_pause();
void sleep_until(int64_t deadline_ns);

// ---- promise / future -------------------------------------------------------------------------
void promise_set(int obj);
bool future_wait(int obj, int64_t deadline_ns);  // true = ready
bool future_ready(int obj);

// ---- time -----------------------------------------------------------------------------------
int64_t now_ns();            // virtual steady clock as seen by std::chrono::steady_clock (absolute)
int64_t virt_ns();           // virtual offset since session start

// ---- harness helpers ------------------------------------------------------------------------
// a labelled harness event: folds into the global observation log (ctx.obs) and the thread's
// history; use for everything the oracle reads.
void note(const char *what, uint64_t a = 0, uint64_t b = 0);
std::string describe();      // statuses of all threads (for messages)
// invariant evaluated at every scheduling point of the session (cleared by begin())
void set_invariant(void (*fn)());
// report an oracle failure from any thread: records it and ends the (forked) execution
[[noreturn]] void fail(const std::string &sig, const std::string &msg);
inline void check(bool ok, const std::string &sig, const std::string &msg) { if (!ok) fail(sig, msg); }
vf::Ctx &ctx();
// Also place a scheduling point AFTER every mutex unlock (default off). For data-race-free code points
// before synchronisation operations suffice; with this on, plain accesses that follow an unlock can be
// separated from it, so a mutator that drops the lock too early shows up as a wrong outcome or a crash in
// the exhaustive search and not only in the ThreadSanitizer side pass. Reset by begin().
void set_post_release_points(bool on);

}  // namespace vfs
