// vf_sched.cc - see vf_sched.h and DESIGN.md section 2 / appendix A.
#include "vf_sched.h"

#include <pthread.h>
#include <semaphore.h>
#include <unistd.h>

#include <cerrno>
#include <cstdio>
#include <cstdlib>
#include <cstring>
#include <vector>

#include "vf_clock.h"
#include "vf_core.h"

namespace vfs {
namespace {

constexpr int MAXTHR = 16;
constexpr int MAXOBJ = 4096;
constexpr int NHIST = 96;   // read-only observations remembered per thread and epoch
constexpr int MAXPERIOD = 24;  // longest loop body (in observations) recognised as a spin loop

enum St : uint8_t { UNUSED, RUNNABLE, B_MUTEX, B_CV, B_JOIN, B_FUTURE, SLEEPING, FINISHED };
const char *const kStName[] = {"unused", "runnable", "blocked-mutex", "blocked-cv", "blocked-join", "blocked-future", "sleeping", "finished"};
const char *const kOpName[] = {"load", "store", "rmw", "cas", "lock", "trylock", "unlock", "wait", "notify", "spawn", "join",
                               "yield", "sleep", "pause", "promise_set", "future_wait", "user", "exit"};

struct Thr {
  St st = UNUSED;
  int wait_obj = -1;
  int wait_mutex = -1;
  int64_t deadline = -1;
  bool timed_out = false;
  bool spin_sleep = false;  // sleeping as part of a spin-wait ladder (went to sleep while spinning without news)
  bool yielded = false;
  uint64_t yield_epoch = 0;
  vf::H128 obs;
  uint64_t ncreated = 0;
  // repetition detection (DESIGN 2.4 / 12.1): read-only observations made in the current write epoch
  uint64_t rep_epoch = ~0ull;
  int nhist = 0;
  struct { int obj; uint64_t vh; } hist[NHIST];
  sem_t sem;
  pthread_t pt;
  Task *task = nullptr;
  Op last_op = OP_USER;
  int last_obj = -1;
};

struct Obj {
  bool alive = false;
  const char *type = "";
  uint64_t name = 0;
  uint64_t vh = 0;
  vf::H128 hist;
  int owner = -1;   // mutex
  bool ready = false;  // promise
};

vf::Ctx *g_ctx = nullptr;
bool g_active = false;
Thr g_thr[MAXTHR];
int g_nthr = 0;
int g_running = -1;
Obj g_obj[MAXOBJ];
int g_nobj = 0;
uint64_t g_static_names = 0;
uint64_t g_epoch = 0;
uint64_t g_points = 0;
uint64_t g_forced_spin = 0;
int64_t g_clock0 = 0;
thread_local int t_self = -1;
void (*g_invariant)() = nullptr;
bool g_post_release = false;
uint64_t g_rng = 0x9e3779b97f4a7c15ull;

inline Thr &me() { return g_thr[t_self]; }

void park(int t) {
  while (sem_wait(&g_thr[t].sem) != 0 && errno == EINTR) {}
}

[[noreturn]] void die(const char *kind, const std::string &msg) {
  g_ctx->exit_fail(g_ctx->opt().property + ":" + kind, msg + "\n" + describe());
}

void wake_due_timers() {
  int64_t now = vf::clock_virtual_ns();
  for (int i = 0; i < g_nthr; ++i) {
    Thr &t = g_thr[i];
    if ((t.st == B_CV || t.st == SLEEPING || t.st == B_FUTURE) && t.deadline >= 0 && t.deadline <= now) {
      t.timed_out = true;
      t.st = RUNNABLE;
      t.deadline = -1;
    }
  }
}

int earliest_timer() {
  int best = -1;
  for (int i = 0; i < g_nthr; ++i) {
    Thr &t = g_thr[i];
    if ((t.st == B_CV || t.st == SLEEPING || t.st == B_FUTURE) && t.deadline >= 0)
      if (best < 0 || t.deadline < g_thr[best].deadline) best = i;
  }
  return best;
}

// earliest pending timer of a thread that is NOT merely sleeping inside a spin-wait ladder
int earliest_real_timer() {
  int best = -1;
  for (int i = 0; i < g_nthr; ++i) {
    Thr &t = g_thr[i];
    if ((t.st == B_CV || t.st == SLEEPING || t.st == B_FUTURE) && t.deadline >= 0 && !(t.st == SLEEPING && t.spin_sleep))
      if (best < 0 || t.deadline < g_thr[best].deadline) best = i;
  }
  return best;
}

void fire_earliest_timer() {
  int i = earliest_timer();
  if (i < 0) return;
  if (g_thr[i].deadline > vf::clock_virtual_ns()) vf::clock_set_virtual_ns(g_thr[i].deadline);
  wake_due_timers();
}

vf::H128 state_hash() {
  vf::H128 h;
  uint64_t acc1 = 0, acc2 = 0;
  for (int i = 0; i < g_nobj; ++i) {
    Obj &o = g_obj[i];
    if (!o.alive) continue;
    vf::H128 e;
    e.add(o.name); e.add(o.vh); e.add(o.hist.a); e.add(o.hist.b); e.add((uint64_t)(o.owner + 1)); e.add(o.ready);
    acc1 += e.a; acc2 += e.b;  // order independent
  }
  h.add(acc1); h.add(acc2);
  for (int i = 0; i < g_nthr; ++i) {
    Thr &t = g_thr[i];
    h.add(((uint64_t)t.st << 32) | (uint64_t)(t.timed_out ? 2 : 0) | (uint64_t)((t.yielded && t.yield_epoch == g_epoch) ? 1 : 0));
    h.add(t.obs.a); h.add(t.obs.b);
    h.add(t.wait_obj >= 0 ? g_obj[t.wait_obj].name : 0);
    h.add((uint64_t)t.deadline);
  }
  h.add((uint64_t)g_running);
  h.add((uint64_t)vf::clock_virtual_ns());
  h.add(g_ctx->obs_hash().a); h.add(g_ctx->obs_hash().b);
  return h;
}

// The heart: decide who runs next. `can_run`: the caller could continue (it is at a scheduling
// point), otherwise it has just blocked or finished. Returns when the caller is running again
// (never returns for a finished caller).
void schedule(bool can_run) {
  int self = t_self;
  const bool at_point = can_run;  // false: the caller blocked (or finished), so switching away is free
  for (;;) {
    Thr &s = g_thr[self];
    // a blocked caller that has been made runnable meanwhile (its own timer fired while nobody else
    // could run) is an ordinary candidate again
    if (!can_run && s.st == RUNNABLE && !at_point) can_run = true;
    bool self_yielded = can_run && s.yielded && s.yield_epoch == g_epoch;
    if (s.yielded && s.yield_epoch != g_epoch) s.yielded = false;
    int cand[MAXTHR + 2];
    uint8_t kinds[MAXTHR + 2];
    int n = 0;
    bool self_enabled = can_run && !self_yielded;
    if (self_enabled) { cand[n] = self; kinds[n++] = vf::FREE; }
    int capk = g_ctx->remaining(vf::PREEMPT);
    // other threads that are runnable and not spinning without news
    for (int i = 0; i < g_nthr; ++i) {
      if (i == self) continue;
      Thr &t = g_thr[i];
      if (t.st != RUNNABLE) continue;
      if (t.yielded && t.yield_epoch == g_epoch) continue;
      if (self_enabled && at_point) {
        if (capk <= 0) continue;
        cand[n] = i; kinds[n++] = vf::PREEMPT;
      } else {
        cand[n] = i; kinds[n++] = vf::FREE;
      }
    }
    if (n == 0) {
      // only spinners (threads that yielded and have seen nothing new) may be left
      if (self_yielded) { cand[n] = self; kinds[n++] = vf::FREE; }
      for (int i = 0; i < g_nthr; ++i)
        if (i != self && g_thr[i].st == RUNNABLE) { cand[n] = i; kinds[n++] = vf::FREE; }
      if (n > 0) ++g_forced_spin;
    } else {
      g_forced_spin = 0;
    }
    int timer = earliest_timer();
    if (n == 0 && timer >= 0 && g_thr[timer].st == SLEEPING && g_thr[timer].spin_sleep) ++g_forced_spin;  // a ladder's own sleep
    // Spin-waiting with sleeps (SpinLockMutex::lock(): 100 fast tries, yield, try, sleep 1 ms, repeat) while the
    // holder is blocked on a long timer: nothing can change before one of the OTHER threads' timers fires. The
    // waiters are first driven through a few rounds of their ladder (so that its later stages are exercised);
    // after that virtual time jumps to that timer instead of unrolling hundreds of identical rounds.
    if (g_forced_spin > 700) {
      int real = earliest_real_timer();
      if (real >= 0) {
        if (g_thr[real].deadline > vf::clock_virtual_ns()) vf::clock_set_virtual_ns(g_thr[real].deadline);
        wake_due_timers();
        g_forced_spin = 0;
        continue;
      }
      if (g_forced_spin > 3000)
        die("livelock", "only spinning threads are runnable (or sleeping inside their spin loop) and no other thread will ever wake up");
    }
    if (n == 0) {
      if (timer >= 0) { fire_earliest_timer(); continue; }   // time passes only when nobody can run
      die("deadlock", "no thread can run and no timer is pending");
    }
    // deviation: the earliest timer fires although threads are runnable (an arbitrarily slow thread)
    if (timer >= 0 && g_ctx->remaining(vf::TIMER) > 0) { cand[n] = -2; kinds[n++] = vf::TIMER; }
    // deviation: spurious wake-up of a condition-variable waiter
    if (g_ctx->remaining(vf::WAKE) > 0)
      for (int i = 0; i < g_nthr && n < vf::MAXALT; ++i)
        if (g_thr[i].st == B_CV) { cand[n] = -100 - i; kinds[n++] = vf::WAKE; }
    if (n > vf::MAXALT) n = vf::MAXALT;
    int c = 0;
    if (n > 1) {
      if (g_ctx->opt().cache) {
        vf::H128 h = state_hash();
        if (g_ctx->covered(h)) g_ctx->exit_pruned();
      }
      c = g_ctx->pick_costed("sched", n, kinds);
    }
    int who = cand[c];
    if (who == -2) { fire_earliest_timer(); continue; }
    if (who <= -100) {
      Thr &t = g_thr[-100 - who];
      t.st = RUNNABLE; t.timed_out = false; t.deadline = -1;
      continue;
    }
    if (who == self) return;
    g_running = who;
    if (g_ctx->tracing()) g_ctx->trace("switch T%d -> T%d", self, who);
    sem_post(&g_thr[who].sem);
    if (s.st == FINISHED) return;  // caller's pthread terminates
    park(self);
    // running again
    can_run = true;  // whoever woke us made us runnable; the caller re-checks its condition
    return;
  }
}

void count_point(Op op, int obj) {
  // serialisation self-check: exactly the thread the scheduler selected may be executing
  if (g_running != t_self) {
    fprintf(stderr, "vf: ENGINE ERROR: thread T%d executes while T%d is scheduled\n", t_self, g_running);
    _exit(2);
  }
  Thr &s = me();
  s.last_op = op;
  s.last_obj = obj;
  g_ctx->step();
  if (++g_points > (uint64_t)g_ctx->opt().horizon)
    die("nontermination", vf::sfmt("execution exceeded the horizon of %ld scheduling points", g_ctx->opt().horizon));
  if (g_ctx->tracing()) g_ctx->trace("T%d %s %s#%d", t_self, kOpName[op], obj >= 0 ? g_obj[obj].type : "", obj);
  if (g_invariant) g_invariant();
}

void *trampoline(void *arg) {
  int id = (int)(intptr_t)arg;
  t_self = id;
  park(id);
  Thr &s = g_thr[id];
  s.task->run();
  delete s.task;
  s.task = nullptr;
  // exit
  count_point(OP_EXIT, -1);
  s.st = FINISHED;
  g_epoch++;
  for (int i = 0; i < g_nthr; ++i)
    if (g_thr[i].st == B_JOIN && g_thr[i].wait_obj == id) { g_thr[i].st = RUNNABLE; g_thr[i].wait_obj = -1; }
  schedule(false);
  return nullptr;
}

}  // namespace

// ---------------------------------------------------------------------------------------------
void begin(vf::Ctx &ctx) {
  g_ctx = &ctx;
  for (int i = 0; i < MAXTHR; ++i) {
    g_thr[i].st = UNUSED; g_thr[i].wait_obj = g_thr[i].wait_mutex = -1; g_thr[i].deadline = -1; g_thr[i].timed_out = false; g_thr[i].spin_sleep = false;
    g_thr[i].yielded = false; g_thr[i].obs = vf::H128(); g_thr[i].ncreated = 0; g_thr[i].rep_epoch = ~0ull; g_thr[i].nhist = 0;
  }
  g_nthr = 1;
  g_thr[0].st = RUNNABLE;
  sem_init(&g_thr[0].sem, 0, 0);
  t_self = 0;
  g_running = 0;
  g_epoch = 0;
  g_points = 0;
  g_forced_spin = 0;
  g_invariant = nullptr;
  g_post_release = false;
  g_rng = 0x9e3779b97f4a7c15ull;
  vf::clock_reset();
  vf::clock_set_autostep_ns(0);
  g_clock0 = vf::clock_steady_base_ns();
  g_active = true;
}

void end() {
  // A thread the code under test detached keeps running after its owner is gone: let it run to completion
  // under the scheduler (the harness' recorders stay alive until after end(), so what it still does is seen by
  // the oracle; if it never finishes, the usual deadlock / horizon verdicts apply).
  for (int i = 1; i < g_nthr; ++i) {
    if (g_thr[i].st == FINISHED) continue;
    if (t_self != 0) die("harness-error", vf::sfmt("thread T%d still alive at the end of the session", i));
    note("drain-detached-thread", (uint64_t)i, 0);
    Thr &s = me();
    while (g_thr[i].st != FINISHED) {
      s.st = B_JOIN; s.wait_obj = i;
      schedule(false);
    }
    s.wait_obj = -1;
    pthread_join(g_thr[i].pt, nullptr);
  }
  g_active = false;
}

bool active() { return g_active && t_self >= 0; }
int self() { return t_self; }
uint64_t points() { return g_points; }

int obj_new(const char *type, uint64_t name_hint, uint64_t vh) {
  int id = -1;
  for (int i = 0; i < g_nobj; ++i)
    if (!g_obj[i].alive) { id = i; break; }  // reuse (names keep objects apart)
  if (id < 0) {
    if (g_nobj >= MAXOBJ) { fprintf(stderr, "vf: too many shim objects\n"); _exit(2); }
    id = g_nobj++;
  }
  Obj &o = g_obj[id];
  o = Obj();
  o.alive = true;
  o.type = type;
  o.vh = vh;
  if (name_hint) {
    vf::H128 h; h.add(0xadd7); h.add(name_hint);
    o.name = h.a;
  } else if (active()) {
    vf::H128 h; h.add(0xabc); h.add((uint64_t)t_self); h.add(me().ncreated++);
    o.name = h.a;
  } else {
    o.name = ++g_static_names;
  }
  return id;
}

void obj_del(int id) {
  if (id >= 0 && id < g_nobj) g_obj[id].alive = false;
}

void point(Op op, int obj) {
  if (!active()) return;
  count_point(op, obj);
  schedule(true);
}

void did_read(int obj, uint64_t vh) {
  if (!active()) return;
  Thr &s = me();
  Obj &o = g_obj[obj];
  s.obs.add(o.name); s.obs.add(vh); s.obs.add(o.hist.a); s.obs.add(o.hist.b);
  // Spin-loop detection: the thread's read-only observations since the world last changed end in the
  // same block of observations three times in a row. A deterministic thread that has executed a
  // read-only loop body three times with identical results in an unchanged world will repeat it for
  // ever (or until a bounded retry counter runs out, which only re-reads): it is treated like a thread
  // that called yield. Straight-line code that merely reads one atomic several times (size(), then an
  // assert, then PeekImpl) never forms three identical consecutive blocks and is NOT affected - an
  // earlier, cruder rule (same observation three times) wrongly parked such threads and hid schedules.
  if (s.rep_epoch != g_epoch) { s.rep_epoch = g_epoch; s.nhist = 0; }
  if (s.nhist == NHIST) { memmove(&s.hist[0], &s.hist[NHIST / 2], sizeof(s.hist[0]) * (NHIST - NHIST / 2)); s.nhist = NHIST - NHIST / 2; }
  s.hist[s.nhist].obj = obj; s.hist[s.nhist].vh = vh; s.nhist++;
  for (int k = 1; k <= MAXPERIOD && 3 * k <= s.nhist; ++k) {
    bool same = true;
    for (int i = 0; i < k && same; ++i) {
      auto &a = s.hist[s.nhist - 1 - i], &b = s.hist[s.nhist - 1 - i - k], &c = s.hist[s.nhist - 1 - i - 2 * k];
      if (a.obj != b.obj || a.vh != b.vh || a.obj != c.obj || a.vh != c.vh) same = false;
    }
    if (same && k == 1) {
      // a one-observation body needs five identical observations in a row (three could be straight-line code)
      same = s.nhist >= 5;
      for (int i = 1; i < 5 && same; ++i)
        if (s.hist[s.nhist - 1 - i].obj != s.hist[s.nhist - 1].obj || s.hist[s.nhist - 1 - i].vh != s.hist[s.nhist - 1].vh) same = false;
    }
    if (same) { s.yielded = true; s.yield_epoch = g_epoch; break; }
  }
}

void did_write(int obj, uint64_t vh, bool rmw) {
  if (!active()) { if (obj >= 0) g_obj[obj].vh = vh; return; }
  Thr &s = me();
  Obj &o = g_obj[obj];
  s.obs.add(0x77); s.obs.add(o.name); s.obs.add(vh);
  if (rmw) { o.hist.add(s.obs.a); o.hist.add(s.obs.b); }
  else { o.hist = vf::H128(); o.hist.add(s.obs.a); o.hist.add(s.obs.b); }
  o.vh = vh;
  g_epoch++;
}

bool cas_may_fail(int obj) {
  if (!active() || g_ctx->remaining(vf::CAS) <= 0) return false;
  (void)obj;
  return g_ctx->deviate("cas_spurious", vf::CAS);
}

void mutex_lock(int m) {
  if (!active()) { g_obj[m].owner = 99; return; }
  count_point(OP_LOCK, m);
  schedule(true);
  Thr &s = me();
  Obj &o = g_obj[m];
  while (o.owner >= 0) {
    if (o.owner == t_self) die("deadlock", vf::sfmt("T%d locks mutex#%d which it already holds", t_self, m));
    s.st = B_MUTEX; s.wait_obj = m;
    schedule(false);
  }
  s.wait_obj = -1;
  o.owner = t_self;
  s.obs.add(0x10c); s.obs.add(o.name); s.obs.add(o.hist.a); s.obs.add(o.hist.b);
  g_epoch++;
}

bool mutex_trylock(int m) {
  if (!active()) { if (g_obj[m].owner >= 0) return false; g_obj[m].owner = 99; return true; }
  count_point(OP_TRYLOCK, m);
  schedule(true);
  Thr &s = me();
  Obj &o = g_obj[m];
  if (o.owner >= 0) { s.obs.add(0x7f1); s.obs.add(o.name); return false; }
  o.owner = t_self;
  s.obs.add(0x10c); s.obs.add(o.name); s.obs.add(o.hist.a); s.obs.add(o.hist.b);
  g_epoch++;
  return true;
}

static void release_mutex(int m) {
  Obj &o = g_obj[m];
  Thr &s = me();
  o.owner = -1;
  o.hist.add(s.obs.a); o.hist.add(s.obs.b);
  s.obs.add(0x0c1); s.obs.add(o.name);
  for (int i = 0; i < g_nthr; ++i)
    if (g_thr[i].st == B_MUTEX && g_thr[i].wait_obj == m) g_thr[i].st = RUNNABLE;
  g_epoch++;
}

void mutex_unlock(int m) {
  if (!active()) { g_obj[m].owner = -1; return; }
  count_point(OP_UNLOCK, m);
  schedule(true);
  release_mutex(m);
  if (g_post_release) {
    count_point(OP_USER, m);
    schedule(true);
  }
}

static void reacquire(int m) {
  Thr &s = me();
  Obj &o = g_obj[m];
  while (o.owner >= 0) {
    s.st = B_MUTEX; s.wait_obj = m;
    schedule(false);
  }
  s.wait_obj = -1;
  o.owner = t_self;
  s.obs.add(0x10c); s.obs.add(o.name); s.obs.add(o.hist.a); s.obs.add(o.hist.b);
  g_epoch++;
}

bool cv_wait(int cv, int m, int64_t deadline_ns) {
  if (!active()) { fprintf(stderr, "vf: condition_variable wait outside a session\n"); _exit(2); }
  count_point(OP_WAIT, cv);
  schedule(true);
  Thr &s = me();
  int64_t dl = -1;
  if (deadline_ns >= 0) {
    dl = deadline_ns - g_clock0;   // to virtual offset
    if (dl < 0) dl = 0;
  }
  release_mutex(m);
  s.timed_out = false;
  if (dl >= 0 && dl <= vf::clock_virtual_ns()) {
    // deadline already passed: times out at once, but the mutex was released in between
    s.timed_out = true;
    s.obs.add(0x71e0);
    count_point(OP_LOCK, m);
    schedule(true);
  } else {
    s.st = B_CV; s.wait_obj = cv; s.wait_mutex = m; s.deadline = dl;
    schedule(false);
    s.wait_obj = -1; s.deadline = -1;
    s.obs.add(s.timed_out ? 0x71e0 : 0x0771);
  }
  bool timed_out = s.timed_out;
  s.timed_out = false;
  reacquire(m);
  return !timed_out;
}

void cv_notify(int cv, bool all) {
  if (!active()) return;
  count_point(OP_NOTIFY, cv);
  schedule(true);
  int w[MAXTHR], n = 0;
  for (int i = 0; i < g_nthr; ++i)
    if (g_thr[i].st == B_CV && g_thr[i].wait_obj == cv) w[n++] = i;
  me().obs.add(0x707); me().obs.add(g_obj[cv].name);
  if (n == 0) return;
  if (!all && n > 1) {
    int c = g_ctx->pick("notify_one", n);
    w[0] = w[c];
    n = 1;
  } else if (!all) {
    n = 1;
  }
  for (int i = 0; i < n; ++i) { g_thr[w[i]].st = RUNNABLE; g_thr[w[i]].timed_out = false; g_thr[w[i]].deadline = -1; }
  g_epoch++;
}

int thread_spawn(Task *task) {
  if (!active()) { fprintf(stderr, "vf: std::thread created outside a scheduling session\n"); _exit(2); }
  count_point(OP_SPAWN, -1);
  schedule(true);
  if (g_nthr >= MAXTHR)  // a horizon on thread creation, like the one on scheduling points: no configuration of an unchanged tree comes near it
    die("nontermination", vf::sfmt("more than %d threads were created in one execution (threads accumulate without bound)", MAXTHR - 1));
  int id = g_nthr++;
  Thr &t = g_thr[id];
  t.st = RUNNABLE;
  t.task = task;
  t.obs = vf::H128();
  t.obs.add(me().obs.a); t.obs.add(me().obs.b); t.obs.add((uint64_t)id);
  me().obs.add(0x5a); me().obs.add((uint64_t)id);
  sem_init(&t.sem, 0, 0);
  pthread_attr_t at;
  pthread_attr_init(&at);
  pthread_attr_setstacksize(&at, 1 << 20);
  if (pthread_create(&t.pt, &at, trampoline, (void *)(intptr_t)id) != 0) { fprintf(stderr, "vf: pthread_create failed\n"); _exit(2); }
  pthread_attr_destroy(&at);
  g_epoch++;
  return id;
}

bool thread_finished(int tid) { return g_thr[tid].st == FINISHED; }

void thread_join(int tid) {
  if (!active()) { fprintf(stderr, "vf: join outside a session\n"); _exit(2); }
  count_point(OP_JOIN, -1);
  schedule(true);
  Thr &s = me();
  while (g_thr[tid].st != FINISHED) {
    s.st = B_JOIN; s.wait_obj = tid;
    schedule(false);
  }
  s.wait_obj = -1;
  pthread_join(g_thr[tid].pt, nullptr);
  s.obs.add(0x701); s.obs.add(g_thr[tid].obs.a); s.obs.add(g_thr[tid].obs.b);
}

void yield() {
  if (!active()) return;
  count_point(OP_YIELD, -1);
  me().yielded = true; me().yield_epoch = g_epoch;
  schedule(true);
}

void spin_pause() {
  if (!active()) return;
  count_point(OP_PAUSE, -1);
  me().yielded = true; me().yield_epoch = g_epoch;
  schedule(true);
}

void sleep_until(int64_t deadline_ns) {
  if (!active()) return;
  count_point(OP_SLEEP, -1);
  Thr &s = me();
  int64_t dl = deadline_ns - g_clock0;
  if (dl <= vf::clock_virtual_ns()) { schedule(true); return; }
  s.st = SLEEPING; s.deadline = dl; s.timed_out = false;
  s.spin_sleep = s.yielded && s.yield_epoch == g_epoch;
  schedule(false);
  s.spin_sleep = false;
  s.deadline = -1; s.timed_out = false;
  s.obs.add(0x51ee);
}

void promise_set(int obj) {
  if (!active()) { g_obj[obj].ready = true; return; }
  count_point(OP_PROMISE_SET, obj);
  schedule(true);
  Obj &o = g_obj[obj];
  o.ready = true;
  o.hist.add(me().obs.a); o.hist.add(me().obs.b);
  for (int i = 0; i < g_nthr; ++i)
    if (g_thr[i].st == B_FUTURE && g_thr[i].wait_obj == obj) { g_thr[i].st = RUNNABLE; g_thr[i].deadline = -1; g_thr[i].timed_out = false; }
  g_epoch++;
}

bool future_ready(int obj) { return g_obj[obj].ready; }

bool future_wait(int obj, int64_t deadline_ns) {
  if (!active()) return g_obj[obj].ready;
  count_point(OP_FUTURE_WAIT, obj);
  schedule(true);
  Thr &s = me();
  Obj &o = g_obj[obj];
  if (!o.ready) {
    int64_t dl = -1;
    if (deadline_ns >= 0) { dl = deadline_ns - g_clock0; if (dl < 0) dl = 0; }
    if (dl >= 0 && dl <= vf::clock_virtual_ns()) { s.obs.add(0xf071); return false; }
    s.st = B_FUTURE; s.wait_obj = obj; s.deadline = dl; s.timed_out = false;
    schedule(false);
    s.wait_obj = -1; s.deadline = -1;
  }
  bool ready = o.ready;
  s.timed_out = false;
  s.obs.add(ready ? 0xf0 : 0xf071); s.obs.add(o.name); s.obs.add(o.hist.a);
  return ready;
}

int64_t now_ns() { return vf::clock_steady_base_ns() + vf::clock_virtual_ns(); }
int64_t virt_ns() { return vf::clock_virtual_ns(); }

void note(const char *what, uint64_t a, uint64_t b) {
  vf::H128 h; h.add_bytes(what, strlen(what)); h.add(a); h.add(b);
  g_ctx->obs(h.a);
  if (active()) { me().obs.add(h.a); }
  if (g_ctx->tracing()) g_ctx->trace("T%d NOTE %s %llu %llu", t_self, what, (unsigned long long)a, (unsigned long long)b);
}

std::string describe() {
  std::string s = vf::sfmt("  virtual clock %lld ns, %llu scheduling points\n", (long long)vf::clock_virtual_ns(), (unsigned long long)g_points);
  for (int i = 0; i < g_nthr; ++i) {
    Thr &t = g_thr[i];
    s += vf::sfmt("  T%d: %s", i, kStName[t.st]);
    if (t.wait_obj >= 0 && t.st != B_JOIN) s += vf::sfmt(" on %s#%d", g_obj[t.wait_obj].type, t.wait_obj);
    if (t.st == B_JOIN) s += vf::sfmt(" T%d", t.wait_obj);
    if (t.deadline >= 0) s += vf::sfmt(" deadline=%lldns", (long long)t.deadline);
    if (t.yielded && t.yield_epoch == g_epoch) s += " (spinning)";
    s += vf::sfmt(" last=%s#%d\n", kOpName[t.last_op], t.last_obj);
  }
  return s;
}

void set_invariant(void (*fn)()) { g_invariant = fn; }
void set_post_release_points(bool on) { g_post_release = on; }
void fail(const std::string &sig, const std::string &msg) { g_ctx->exit_fail(sig, msg + "\n" + describe()); }
vf::Ctx &ctx() { return *g_ctx; }

unsigned next_random() {
  g_rng ^= g_rng << 13; g_rng ^= g_rng >> 7; g_rng ^= g_rng << 17;
  return (unsigned)(g_rng >> 16);
}

}  // namespace vfs

extern "C" unsigned vf_random_next(void) { return vfs::next_random(); }
